"""Typestate facts about `syn::Meta` / `syn::Path` values flowing through educe's parsers:

  validated(path)   the path went through `Trait::from_path` (=> `get_ident()` is Some), established by a
                    dominating check or — for parameters — at every call site (over the call graph);
  ident_set(meta)   the finite set of identifiers the meta's path can be, from dominating `t == Trait::X`
                    guards, dispatch-map keys, or `"name"` match arms;
  nonempty(coll)    a collection that provably holds at least one element.
"""
from .syn import es, pat_s, path_s
from .terms import subterms, term_s, strip_refs, analyse_iter

FROM_PATH = 'crate::supported_traits::Trait::from_path'


def contains_sub(t, pred):
    return any(pred(x) for x in subterms(t))


class MetaFacts:
    def __init__(self, cx, cg):
        self.cx = cx
        self.cg = cg
        self._param_cache = {}

    def terms(self, fw):
        return self.cx.gm.terms_of(fw)

    # -- helpers on ctx evidence -------------------------------------------------------
    def evidence_paths(self, ctx, fw):
        """terms of path expressions proven to have an identifier by the dominating context."""
        tm = self.terms(fw)
        out = []
        for c in ctx:
            k = c['k']
            if k in ('survive', 'arm'):
                scrut = c['scrut']
                st = tm.term(scrut, c['scope'])
                if k == 'survive':
                    pats = [pat_s(p) for p in c['pats']]
                    ok = all(p.startswith('Some(') for p in pats) and pats
                else:
                    ok = pat_s(c['pat']).startswith('Some(')
                if ok and isinstance(st, tuple) and st[0] == 'call' and st[1] == FROM_PATH and len(st) == 3:
                    out.append(st[2])
                if ok and isinstance(st, tuple) and st[0] == 'mcall' and st[2] == 'get_ident':
                    out.append(st[1])
            elif k == 'iflet' and c['pol']:
                st = tm.term(c['expr'], c['scope'])
                if pat_s(c['pat']).startswith('Some('):
                    if isinstance(st, tuple) and st[0] == 'call' and st[1] == FROM_PATH and len(st) == 3:
                        out.append(st[2])
                    if isinstance(st, tuple) and st[0] == 'mcall' and st[2] == 'get_ident':
                        out.append(st[1])
            elif k == 'if':
                # `if p.is_ident(..)` taken, or the residual of `if !p.is_ident(..) { continue / return }`
                cond, pol = c['cond'], c['pol']
                while cond['k'] in ('Paren',) or (cond['k'] == 'Unary' and cond.get('op') == '!'):
                    if cond['k'] == 'Unary':
                        pol = not pol
                    cond = cond['expr']
                if pol:
                    for conj in conjuncts(cond):
                        if conj['k'] == 'MethodCall' and conj['method'] == 'is_ident':
                            out.append(tm.term(conj['recv'], c['scope']))
        return out

    # -- validated ----------------------------------------------------------------------
    def validated_path(self, pterm, ctx, fw, depth=0):
        if depth > 12:
            return True  # recursion through the call graph: assume (coinductive)
        if pterm in self.evidence_paths(ctx, fw):
            return True
        if isinstance(pterm, tuple) and pterm[0] == 'mcall' and pterm[2] == 'path' and len(pterm) == 3:
            return self.validated_meta(pterm[1], ctx, fw, depth + 1)
        if isinstance(pterm, tuple) and pterm[0] == 'param':
            return self.param_all_callers(fw.fn, pterm[1], lambda t, c, w: self.validated_path(t, c, w, depth + 1))
        return False

    def validated_meta(self, m, ctx, fw, depth=0):
        if depth > 12:
            return True
        if ('mcall', m, 'path') in self.evidence_paths(ctx, fw):
            return True
        if not isinstance(m, tuple):
            return False
        if m[0] == 'param':
            return self.param_all_callers(fw.fn, m[1], lambda t, c, w: self.validated_meta(t, c, w, depth + 1))
        if m[0] == 'elem':
            ev = self.terms(fw).for_event(m[1])
            if ev is None:
                return False
            info = analyse_iter(ev.entry['iter'])
            ct = self.terms(fw).term(info.base, ev.scope)
            return self.validated_coll(ct, ev.ctx, fw, depth + 1)
        if m[0] == 'index':
            return self.validated_coll(m[1], ctx, fw, depth + 1)
        return False

    def validated_coll(self, c, ctx, fw, depth=0):
        if depth > 12:
            return True
        if not isinstance(c, tuple):
            return False
        if c[0] == 'param':
            return self.param_all_callers(fw.fn, c[1], lambda t, cc, w: self.validated_coll(t, cc, w, depth + 1))
        if c[0] == 'var':
            tm = self.terms(fw)
            ps = tm.pushes().get(c[1], [])
            if not ps:
                return False
            for ev, kind, key, val in ps:
                if not self.validated_meta(tm.term(val, ev.scope), ev.ctx, fw, depth + 1):
                    return False
            return True
        if c[0] == 'some_of' and isinstance(c[1], tuple) and c[1][0] == 'mcall' and c[1][2] in ('get', 'get_mut'):
            return self.validated_map(c[1][1], fw, depth + 1)
        return False

    def validated_map(self, mapterm, fw, depth):
        """every value ever stored in the map is a Vec of validated metas"""
        if not (isinstance(mapterm, tuple) and mapterm[0] == 'var'):
            return False
        tm = self.terms(fw)
        ok_any = False
        for ev, kind, key, val in tm.pushes().get(mapterm[1], []):
            if kind != 'insert':
                return False
            v = val
            if v['k'] == 'Macro' and v['mac']['name'] == 'vec' and v['mac'].get('args'):
                for a in v['mac']['args']:
                    if not self.validated_meta(tm.term(a, ev.scope), ev.ctx, fw, depth + 1):
                        return False
                ok_any = True
            else:
                return False
        # pushes through get_mut()
        for ev in fw.events:
            if ev.kind == 'mcall' and ev.method == 'push':
                rt = tm.term(ev.recv, ev.scope)
                if contains_sub(rt, lambda x: isinstance(x, tuple) and x[:1] == ('mcall',) and len(x) > 2 and x[1] == mapterm and x[2] == 'get_mut'):
                    if not self.validated_meta(tm.term(ev.args[0], ev.scope), ev.ctx, fw, depth + 1):
                        return False
        return ok_any

    # -- interprocedural ----------------------------------------------------------------
    def param_all_callers(self, fn, pname, pred):
        key = (id(fn), pname, pred.__code__.co_code if False else None)
        names = [p[0] for p in fn.params()]
        if pname not in names:
            return False
        idx = names.index(pname)
        callers = self.cg.callers.get(id(fn), [])
        if fn.trait is not None and fn.name == 'trait_meta_handler':
            pass
        if not callers:
            return False
        for caller, ev, args, has_self in callers:
            i = idx - (1 if names and names[0] == 'self' and has_self else 0)
            if names and names[0] == 'self' and not has_self:
                i = idx
            if i < 0 or i >= len(args):
                return False
            cfw = self.cx.fw(caller)
            t = self.terms(cfw).term(args[i], ev.scope)
            if not pred(t, ev.ctx, cfw):
                return False
        return True

    # -- ident sets -----------------------------------------------------------------------
    def trait_guard_sets(self, mterm, ctx, fw):
        """identifier sets implied for meta `mterm` by dominating guards."""
        tm = self.terms(fw)
        sets = []
        pterm = ('mcall', mterm, 'path')
        for c in ctx:
            if c['k'] == 'if' and c['pol']:
                for conj in conjuncts(c['cond']):
                    if conj['k'] == 'Binary' and conj['op'] == '==':
                        for a, b in ((conj['l_'], conj['r_']), (conj['r_'], conj['l_'])):
                            if b['k'] == 'Path' and b['path']['s'].startswith('Trait::'):
                                at = tm.term(a, c['scope'])
                                if contains_sub(at, lambda x: isinstance(x, tuple) and x[:2] == ('call', FROM_PATH) and len(x) == 3 and x[2] == pterm):
                                    sets.append({b['path']['s'].split('::')[-1]})
                            if b['k'] == 'Lit' and b['lit']['k'] == 'Str':
                                at = tm.term(a, c['scope'])
                                if self.is_ident_of(at, pterm):
                                    sets.append({b['lit']['v']})
            if c['k'] == 'arm':
                st = tm.term(c['scrut'], c['scope'])
                # match ident.to_string().as_str() { "a" | "b" => .. }
                base = st
                while isinstance(base, tuple) and base[0] == 'mcall' and base[2] in ('to_string', 'as_str'):
                    base = base[1]
                if self.is_ident_of(base, pterm):
                    lits = pat_lits(c['pat'])
                    if lits is not None:
                        sets.append(set(lits))
        return sets

    def is_ident_of(self, t, pterm):
        """t denotes `<pterm>.get_ident()` payload"""
        if isinstance(t, tuple) and t[0] == 'some_of':
            t = t[1]
        if isinstance(t, tuple) and t[0] == 'unwrap':
            t = t[1]
        return isinstance(t, tuple) and t[0] == 'mcall' and t[2] == 'get_ident' and t[1] == pterm

    def ident_set(self, m, ctx, fw, depth=0):
        """set of possible identifiers of meta `m`, or None if unknown."""
        if depth > 10:
            return None
        sets = self.trait_guard_sets(m, ctx, fw)
        if sets:
            s = set.intersection(*sets)
            return s
        if not isinstance(m, tuple):
            return None
        if m[0] == 'param':
            acc = set()
            names = [p[0] for p in fw.fn.params()]
            if m[1] not in names:
                return None
            idx = names.index(m[1])
            callers = self.cg.callers.get(id(fw.fn), [])
            if not callers:
                return None
            for caller, ev, args, has_self in callers:
                i = idx - (1 if names[0] == 'self' and has_self else 0)
                if i < 0 or i >= len(args):
                    return None
                cfw = self.cx.fw(caller)
                t = self.terms(cfw).term(args[i], ev.scope)
                s = self.ident_set(t, ev.ctx, cfw, depth + 1)
                if s is None:
                    return None
                acc |= s
            return acc
        if m[0] == 'elem':
            ev = self.terms(fw).for_event(m[1])
            if ev is None:
                return None
            info = analyse_iter(ev.entry['iter'])
            ct = self.terms(fw).term(info.base, ev.scope)
            return self.coll_ident_set(ct, ev.ctx, fw, depth + 1)
        if m[0] == 'index':
            return self.coll_ident_set(m[1], ctx, fw, depth + 1)
        return None

    def coll_ident_set(self, c, ctx, fw, depth):
        if depth > 10 or not isinstance(c, tuple):
            return None
        tm = self.terms(fw)
        if c[0] == 'param':
            acc = set()
            names = [p[0] for p in fw.fn.params()]
            if c[1] not in names:
                return None
            idx = names.index(c[1])
            callers = self.cg.callers.get(id(fw.fn), [])
            if not callers:
                return None
            for caller, ev, args, has_self in callers:
                i = idx - (1 if names[0] == 'self' and has_self else 0)
                if i < 0 or i >= len(args):
                    return None
                cfw = self.cx.fw(caller)
                t = self.terms(cfw).term(args[i], ev.scope)
                s = self.coll_ident_set(t, ev.ctx, cfw, depth + 1)
                if s is None:
                    return None
                acc |= s
            return acc
        if c[0] == 'var':
            acc = set()
            ps = tm.pushes().get(c[1], [])
            if not ps:
                return None
            for ev, kind, key, val in ps:
                s = self.ident_set(tm.term(val, ev.scope), ev.ctx, fw, depth + 1)
                if s is None:
                    return None
                acc |= s
            return acc
        if c[0] == 'some_of' and isinstance(c[1], tuple) and c[1][0] == 'mcall' and c[1][2] in ('get', 'get_mut') and len(c[1]) == 4:
            key = c[1][3]
            mapterm = c[1][1]
            if isinstance(key, tuple) and key[0] == 'path' and key[1].startswith('Trait::') and self.map_keys_are_from_path(mapterm, fw):
                return {key[1].split('::')[-1]}
        return None

    def map_keys_are_from_path(self, mapterm, fw):
        """every insert(k, vec![m]) has k = from_path(m.path()) payload"""
        if not (isinstance(mapterm, tuple) and mapterm[0] == 'var'):
            return False
        tm = self.terms(fw)
        ins = tm.pushes().get(mapterm[1], [])
        if not ins:
            return False
        for ev, kind, key, val in ins:
            if kind != 'insert' or not (val['k'] == 'Macro' and val['mac']['name'] == 'vec' and len(val['mac'].get('args') or []) == 1):
                return False
            mt = tm.term(val['mac']['args'][0], ev.scope)
            kt = tm.term(key, ev.scope)
            if not contains_sub(kt, lambda x: isinstance(x, tuple) and x[:2] == ('call', FROM_PATH) and len(x) == 3 and x[2] == ('mcall', mt, 'path')):
                return False
        # get_mut pushes: pushed meta must be the one whose from_path gave the key used in get_mut
        for ev in fw.events:
            if ev.kind == 'mcall' and ev.method == 'push':
                rt = tm.term(ev.recv, ev.scope)
                gm = [x for x in subterms(rt) if isinstance(x, tuple) and x[:1] == ('mcall',) and len(x) == 4 and x[1] == mapterm and x[2] == 'get_mut']
                if gm:
                    mt = tm.term(ev.args[0], ev.scope)
                    if not contains_sub(gm[0][3], lambda x: isinstance(x, tuple) and x[:2] == ('call', FROM_PATH) and len(x) == 3 and x[2] == ('mcall', mt, 'path')):
                        return False
        return True

    # -- non-emptiness --------------------------------------------------------------------
    def nonempty(self, c, ctx, fw, depth=0):
        if depth > 10 or not isinstance(c, tuple):
            return False
        tm = self.terms(fw)
        for e in ctx:
            if e['k'] == 'if':
                for conj in (conjuncts(e['cond']) if e['pol'] else [e['cond']]):
                    x = conj
                    neg = not e['pol']
                    while x['k'] == 'Unary' and x['op'] == '!':
                        x = x['expr']
                        neg = not neg
                    if x['k'] == 'MethodCall' and x['method'] == 'is_empty' and neg and tm.term(x['recv'], e['scope']) == c:
                        return True
                    if x['k'] == 'Binary' and x['op'] == '==' and not neg:
                        l, r = x['l_'], x['r_']
                        if l['k'] == 'MethodCall' and l['method'] == 'len' and r['k'] == 'Lit' and r['lit'].get('digits') not in (None, '0'):
                            if tm.term(l['recv'], e['scope']) == c:
                                return True
        if c[0] == 'param':
            return self.param_all_callers(fw.fn, c[1], lambda t, cc, w: self.nonempty(t, cc, w, depth + 1))
        if c[0] == 'cparam':
            # the parameter of a closure passed to Option::map / and_then / .. is the payload of the receiver
            for e in ctx:
                if e['k'] == 'closure' and e.get('id') == c[1] and e.get('callee') in ('map', 'and_then', 'filter', 'inspect', 'map_or', 'map_or_else') \
                        and e.get('recv') is not None:
                    for ev in fw.events:
                        if ev.kind == 'closure' and ev.entry is e:
                            return self.nonempty(('some_of', tm.term(e['recv'], ev.scope)), ctx, fw, depth + 1)
        if c[0] == 'some_of' and isinstance(c[1], tuple) and c[1][0] == 'mcall' and c[1][2] in ('get', 'get_mut'):
            mapterm = c[1][1]
            if isinstance(mapterm, tuple) and mapterm[0] == 'var':
                ins = tm.pushes().get(mapterm[1], [])
                return bool(ins) and all(kind == 'insert' and val['k'] == 'Macro' and val['mac']['name'] == 'vec' and val['mac'].get('args')
                                         for ev, kind, key, val in ins)
        return False


def conjuncts(e):
    if e['k'] == 'Binary' and e['op'] == '&&':
        return conjuncts(e['l_']) + conjuncts(e['r_'])
    return [e]


def disjuncts(e):
    if e['k'] == 'Binary' and e['op'] == '||':
        return disjuncts(e['l_']) + disjuncts(e['r_'])
    return [e]


def pat_lits(p):
    if p['k'] == 'Lit' and p['lit']['k'] == 'Str':
        return [p['lit']['v']]
    if p['k'] == 'Or':
        out = []
        for c in p['cases']:
            x = pat_lits(c)
            if x is None:
                return None
            out += x
        return out
    return None
