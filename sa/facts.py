"""Normalised guard atoms, effective contexts through collect-then-iterate loops, optionality of terms."""
from .syn import es, pat_s, ty_s
from .terms import analyse_iter, subterms, term_s, strip_refs
from .walk import Ctx, ctx_s
from .metafacts import conjuncts


class Facts:
    def __init__(self, cx):
        self.cx = cx
        from .callgraph import CallGraph
        self._cg = None

    @property
    def cg(self):
        if self._cg is None:
            from .callgraph import CallGraph
            self._cg = CallGraph(self.cx)
        return self._cg

    def tm(self, fw):
        return self.cx.gm.terms_of(fw)

    # -- effective contexts ---------------------------------------------------------------
    def collection_of_loop(self, c, fw):
        """for a `for` ctx entry iterating a local collection filled by push/insert: (collection def, [push events], IterInfo)"""
        tm = self.tm(fw)
        info = analyse_iter(c['iter'])
        base = info.base
        if base['k'] == 'Path' and len(base['path']['segs']) == 1:
            d = c['scope'].lookup(base['path']['s'])
            if d is not None:
                if d.kind != 'let':
                    bt = tm.def_term(d)
                    if isinstance(bt, tuple) and bt[0] == 'var':
                        d = tm.def_by_id(bt[1])
                    else:
                        # a binding that came out of another collection (e.g. variant_fields out of variants)
                        if isinstance(bt, tuple) and bt[0] == 'var':
                            d = tm.def_by_id(bt[1])
                        else:
                            return None
                if d is not None and d.kind == 'let':
                    ps = tm.pushes().get(d.id)
                    if ps:
                        return d, ps, info
        return None

    def effective_ctx(self, ctx, fw, depth=0):
        """replace every loop over a collect-then-iterate collection (single push site) by the context of the
        push site, so that a site in the second loop carries the guards under which its element was collected."""
        out = []
        for c in ctx:
            if c['k'] == 'for' and depth < 4:
                r = self.collection_of_loop(c, fw)
                if r is not None and len(r[1]) == 1:
                    d, ps, info = r
                    pev = ps[0][0]
                    spliced = self.effective_ctx(pev.ctx, fw, depth + 1)
                    keys = set(x.key() for x in out)
                    for x in spliced:
                        if x.key() not in keys:
                            out.append(x)
                            keys.add(x.key())
                    marker = Ctx(k='via', id=c['id'], coll=d, info=info, push=pev, kind=ps[0][1], key=ps[0][2], loop=c)
                    out.append(marker)
                    continue
            out.append(c)
        return tuple(out)

    # -- atoms ------------------------------------------------------------------------------
    def atoms(self, ctx, fw):
        tm = self.tm(fw)
        out = []
        for c in ctx:
            k = c['k']
            if k == 'for':
                info = analyse_iter(c['iter'])
                out.append(('loop', c['id'], tm.term(info.base, c['scope']), info.enumerate, info.method, info.rev, tuple(info.adaptors)))
            elif k == 'via':
                out.append(('via', c['id'], c['coll'].name, c['kind']))
            elif k == 'if':
                out += self.cond_atoms(c['cond'], c['pol'], c['scope'], fw)
            elif k == 'iflet':
                out += expand_some(self.pat_atom(c['pat'], c['expr'], c['pol'], c['scope'], fw))
            elif k == 'arm':
                if c['pat']['k'] == 'Wild' or (c['pat']['k'] == 'Ident' and not c['pat']['name'][:1].isupper()):
                    out.append(('arm-else', tm.term(c['scrut'], c['scope']), tuple(pat_s(p) for p in c['earlier'])))
                else:
                    out += expand_some(self.pat_atom(c['pat'], c['scrut'], True, c['scope'], fw))
                if c.get('guard') is not None:
                    out.append(('cond', es(c['guard']), True))
                for pred in c.get('cfg') or []:
                    out.append(('cfg', str(pred)))
            elif k == 'survive':
                out.append(('survive', tm.term(c['scrut'], c['scope']), tuple(pat_s(p) for p in c['pats'])))
            elif k == 'closure':
                if c.get('callee') == 'unwrap_or_else' and c.get('recv') is not None:
                    # closure runs iff the receiver is None
                    sc = None
                    for ev in fw.events:
                        if ev.kind == 'closure' and ev.entry is c:
                            sc = ev.scope
                    if sc is not None:
                        out.append(('some', tm.term(c['recv'], sc), False))
                    else:
                        out.append(('closure', c['id']))
                else:
                    out.append(('closure', c['id'], c.get('callee')))
            elif k == 'cfg':
                for pred in c.get('preds') or []:
                    out.append(('cfg', str(pred)))
            elif k == 'call':
                out.append(('call', c['fn']))
            elif k == 'loop':
                out.append(('rawloop', c['id']))
        return out

    def cond_atoms(self, cond, pol, scope, fw, depth=0):
        tm = self.tm(fw)
        if pol:
            out = []
            for x in conjuncts(cond):
                out += self.single_cond(x, True, scope, fw, depth)
            return out
        if cond['k'] == 'Binary' and cond['op'] == '||':
            # !(a || b) == !a && !b
            from .metafacts import disjuncts
            out = []
            for x in disjuncts(cond):
                out += self.single_cond(x, False, scope, fw, depth)
            return out
        if cond['k'] == 'Binary' and cond['op'] == '&&':
            # !(a && b): not a conjunction of atoms; keep as one opaque-but-structured atom
            return [('nand', tuple(sorted(str(a) for c in conjuncts(cond) for a in self.single_cond(c, True, scope, fw, depth))))]
        return self.single_cond(cond, False, scope, fw, depth)

    def single_cond(self, x, pol, scope, fw, depth=0):
        tm = self.tm(fw)
        while x['k'] == 'Unary' and x['op'] == '!':
            x = x['expr']
            pol = not pol
        if x['k'] == 'Binary' and x['op'] == '||':
            from .metafacts import disjuncts
            subs = []
            for d in disjuncts(x):
                subs += self.single_cond(d, True, scope, fw, depth)
            return [('or', tuple(subs), pol)]
        if x['k'] == 'MethodCall' and not x['args']:
            m = x['method']
            if m == 'is_some':
                return [('some', tm.term(x['recv'], scope), pol)]
            if m == 'is_none':
                return [('some', tm.term(x['recv'], scope), not pol)]
            if m == 'is_empty':
                return [('empty', tm.term(x['recv'], scope), pol)]
        if x['k'] == 'MethodCall' and x['method'] == 'contains' and len(x['args']) == 1:
            a = strip_refs(x['args'][0])
            if a['k'] == 'Path' and a['path']['s'].startswith('Trait::') and tm.term(x['recv'], scope) == ('param', 'traits'):
                return [('educed', a['path']['s'].split('::')[-1], pol)]
        if x['k'] == 'MethodCall' and x['method'] in ('eq', 'ne') and len(x['args']) == 1:
            return [('eq', tm.term(x['recv'], scope), tm.term(x['args'][0], scope), pol if x['method'] == 'eq' else not pol)]
        if x['k'] == 'MethodCall' and x['method'] in ('contains_key',) and len(x['args']) == 1:
            return [('haskey', tm.term(x['recv'], scope), tm.term(x['args'][0], scope), pol)]
        if x['k'] == 'Binary' and x['op'] in ('==', '!='):
            l, r = x['l_'], x['r_']
            if l['k'] == 'MethodCall' and l['method'] == 'len' and r['k'] == 'Lit' and r['lit']['k'] == 'Int':
                return [('len', tm.term(l['recv'], scope), int(r['lit']['digits']), pol if x['op'] == '==' else not pol)]
            return [('eq', tm.term(l, scope), tm.term(r, scope), pol if x['op'] == '==' else not pol)]
        if x['k'] == 'Path' and len(x['path']['segs']) == 1:
            d = scope.lookup(x['path']['s'])
            if d is not None and d.kind == 'let' and d.init is not None and not d.assigns and not d.ppath and depth < 6:
                alts = [d] + list(d.twins)
                if len(alts) == 2:
                    # `#[cfg(feature = "Y")] let c = <expr>; #[cfg(not(feature = "Y"))] let c = false;`
                    pos = [a for a in alts if a.cfg and a.cfg[0][0] == 'feat']
                    neg = [a for a in alts if a.cfg and a.cfg[0][0] == 'not']
                    if len(pos) == 1 and len(neg) == 1 and neg[0].init is not None and neg[0].init['k'] == 'Lit' and neg[0].init['lit'].get('v') is False:
                        return self.cond_atoms(pos[0].init, pol, pos[0].scope, fw, depth + 1)
                elif len(alts) == 1 and d.init['k'] in ('Binary', 'Unary', 'MethodCall', 'Macro', 'Path', 'Field'):
                    if d.init['k'] != 'MethodCall' or d.init['method'] in ('contains', 'is_some', 'is_none', 'is_empty', 'contains_key'):
                        return self.cond_atoms(d.init, pol, d.scope, fw, depth + 1)
        if x['k'] in ('Path', 'Field'):
            return [('truth', tm.term(x, scope), pol)]
        if x['k'] == 'Macro' and 'matches' in x['mac']:
            mm = x['mac']['matches']
            if mm.get('guard') is not None:
                # matches!(x, P if G): P and G when true; not decomposable when false
                if pol:
                    return [self.pat_atom(mm['pat'], mm['expr'], True, scope, fw), ('cond', es(mm['guard']), True)]
                return [('truth', tm.term(x, scope), False)]
            return [self.pat_atom(mm['pat'], mm['expr'], pol, scope, fw)]
        return [('cond', es(x), pol)]

    def pat_atom(self, pat, expr, pol, scope, fw):
        tm = self.tm(fw)
        ps = pat_s(pat)
        et = tm.term(expr, scope)
        if pat['k'] == 'TupleStruct' and pat['path']['s'] == 'Some':
            # Some(_) = (if let P = S { Some(a) } else { None })  <=>  S matches P
            if isinstance(et, tuple) and et[0] == 'iflet' and et[4] == ('None',) and isinstance(et[3], tuple) and et[3][0] == 'Some':
                head = et[1].split('(')[0].split(' ')[0]
                if head == 'Some':
                    return ('some', et[2], pol)
                if head.startswith('Fields::'):
                    return ('shape', et[2], head.split('::')[1], pol)
                if '::' in head:
                    return ('is', et[2], head, pol)
            return ('some', et, pol)
        if pat['k'] in ('Path', 'Ident') and ps == 'None':
            return ('some', et, not pol)
        head = pat.get('path', {}).get('s') if pat['k'] in ('TupleStruct', 'Struct', 'Path') else None
        if head and head.startswith('Data::') and et == ('field', ('param', 'ast'), 'data'):
            return ('data', head.split('::')[1], pol)
        if head and head.startswith('Fields::'):
            return ('shape', et, head.split('::')[1], pol)
        if head:
            return ('is', et, head, pol)
        return ('pat', ps, et, pol)

    # -- attribute records ------------------------------------------------------------------
    def builder_call(self, t):
        """if term t is the result of `<Builder>{..}.build_from_*(subject, ..)?`, return (builder struct term, method, args)"""
        if isinstance(t, tuple) and t[0] == 'try':
            t = t[1]
        if isinstance(t, tuple) and t[0] == 'mcall' and isinstance(t[1], tuple) and t[1][0] in ('struct', 'path') and str(t[2]).startswith('build_from_'):
            return t[1], t[2], t[3:]
        return None

    def attr_of(self, t):
        """if t = <attribute record>.<member> return (record term, member, builder info)"""
        if isinstance(t, tuple) and t[0] == 'field':
            b = self.builder_call(t[1])
            if b:
                return t[1], t[2], b
        return None

    # -- optionality ------------------------------------------------------------------------
    def opt_class(self, t, fw, depth=0):
        """'some' | 'none' | 'maybe' | 'no' (not an Option as far as the analysis can tell)"""
        if depth > 10 or not isinstance(t, tuple):
            return 'no'
        h = t[0]
        if h == 'Some':
            return 'some'
        if h == 'None':
            return 'none'
        if h in ('ite', 'iflet'):
            cs = [self.opt_class(x, fw, depth + 1) for x in t[-2:] if x is not None]
            return join_opt(cs)
        if h == 'match':
            cs = [self.opt_class(x, fw, depth + 1) for _, x in t[2:]]
            return join_opt(cs)
        if h == 'cfgtwins':
            return join_opt([self.opt_class(x[1], fw, depth + 1) for x in t[1:]])
        if h == 'mcall':
            m = t[2]
            if m in ('map', 'and_then', 'filter', 'or', 'take', 'as_deref', 'cloned', 'copied'):
                c = self.opt_class(t[1], fw, depth + 1)
                return c if c != 'no' else 'no'
            if m in ('ok', 'get', 'first', 'last', 'next', 'get_ident', 'find', 'position', 'get_key_value', 'get_mut', 'pop'):
                return 'maybe'
            # crate-local method returning Option<..>
            for f in self.cx.crate.fns:
                if f.name == m and f.self_ty is not None:
                    out = f.sig.get('output')
                    if out is not None and ty_s(out).replace(' ', '').startswith('Option<'):
                        return 'maybe'
            return 'no'
        if h == 'call':
            name = str(t[1])
            if name.startswith('crate::'):
                q = name[len('crate::'):]
                for f in self.cx.crate.fns:
                    if f.qname == q:
                        out = f.sig.get('output')
                        if out is not None and ty_s(out).replace(' ', '').startswith('Option<'):
                            return 'maybe'
            return 'no'
        if h == 'field':
            ty = self.field_decl_type(t, fw)
            if ty is not None and ty.replace(' ', '').startswith('Option<'):
                return 'maybe'
            return 'no'
        if h == 'var':
            d = self.tm(fw).def_by_id(t[1])
            if d is not None:
                cs = []
                if d.init is not None:
                    cs.append(self.opt_class(self.tm(fw).term(d.init, d.scope), fw, depth + 1))
                for a in d.assigns:
                    cs.append(self.opt_class(self.tm(fw).term(a.value, a.scope), fw, depth + 1))
                if d.ty is not None and ty_s(d.ty).replace(' ', '').startswith('Option<'):
                    cs.append('maybe')
                return join_opt(cs) if cs else 'no'
        if h == 'param':
            for d in fw.param_defs:
                if d.name == t[1] and d.ty is not None and ty_s(d.ty).replace(' ', '').lstrip('&').startswith('Option<'):
                    return 'maybe'
        return 'no'

    def field_decl_type(self, t, fw):
        """declared type text of `<record>.<member>` when the record comes from a crate builder / struct"""
        rec, member = t[1], t[2]
        b = self.builder_call(rec)
        if b:
            bstruct, method, args = b
            name = bstruct[1]
            item, p = self.cx.crate.find_type(fw.fn.module, name.split('::')[-1])
            if p is not None:
                # method on that builder type
                for f in self.cx.crate.fns:
                    if f.name == method and f.self_ty == p[-1] and f.module.path == p[:-1]:
                        out = f.sig.get('output')
                        if out is None:
                            continue
                        txt = ty_s(out).replace(' ', '')
                        inner = txt
                        for pre in ('syn::Result<', 'Result<'):
                            if inner.startswith(pre):
                                inner = inner[len(pre):-1]
                        it2, p2 = self.cx.crate.find_type(f.module, inner.split('::')[-1])
                        if it2 is not None and it2['k'] == 'Struct':
                            for fld in it2['fields']['fields']:
                                if fld['name'] == member:
                                    return ty_s(fld['ty'])
        return None


def join_opt(cs):
    cs = [c for c in cs]
    if not cs:
        return 'no'
    if all(c == 'some' for c in cs):
        return 'some'
    if all(c == 'none' for c in cs):
        return 'none'
    if any(c in ('some', 'none', 'maybe') for c in cs):
        return 'maybe'
    return 'no'


def atom_s(a):
    h = a[0]
    if h == 'some':
        return ('' if a[2] else '!') + 'some(' + term_s(a[1], 80) + ')'
    if h == 'truth':
        return ('' if a[2] else '!') + term_s(a[1], 80)
    if h == 'loop':
        return 'loop#%s(%s%s)' % (a[1], term_s(a[2], 60), ' enumerate' if a[3] else '')
    if h == 'shape':
        return ('' if a[3] else '!') + 'shape(%s)=%s' % (term_s(a[1], 50), a[2])
    if h == 'data':
        return ('' if a[2] else '!') + 'data=' + a[1]
    if h == 'educed':
        return ('' if a[2] else '!') + 'educed(%s)' % a[1]
    if h == 'empty':
        return ('' if a[2] else '!') + 'empty(' + term_s(a[1], 60) + ')'
    if h == 'cond':
        return ('' if a[2] else '!') + '(' + a[1] + ')'
    return str(a)[:120]


def expand_some(a):
    """`Some(_) = (if let Some(_) = A { if let Some(_) = B { Some(v) } else { None } } else { None })` holds iff A and B are both `Some`
    (an `Option`-returning helper written with `?`, inlined): one atom per link of the chain.  Negated, the atom stays as it is."""
    if not (isinstance(a, tuple) and a and a[0] == 'some' and a[-1] is True):
        return [a]
    t = a[1]
    out = []
    while isinstance(t, tuple) and len(t) == 5 and t[0] == 'iflet' and t[4] in (('None',), t[2]) and isinstance(t[1], str) and t[1].startswith('Some('):
        out.append(('some', t[2], True))
        t = t[3]
    if out and isinstance(t, tuple) and t and t[0] == 'Some':
        return out
    return [a]
