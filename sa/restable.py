"""Result tables of small helper functions: every way the function can produce its result, with the case (pattern / condition
context) it is produced in and the alpha-normal text of the value (sa/alpha.py)."""
from .alpha import Alpha
from .syn import es, pat_s, ty_s


def result_leaves(cx, f):
    """[(value expr json, ctx, how)] for every way the function can produce its result"""
    fw = cx.fw(f)
    by_node = {}
    for ev in fw.events:
        if ev.kind in ('tail', 'armval'):
            by_node[id(ev.node)] = ev
    out = []

    def tails(e, ctx_hint):
        if e is None:
            return
        k = e['k']
        if k == 'Block':
            st = e['stmts']
            if st and st[-1]['k'] == 'Expr' and not st[-1]['semi']:
                tails(st[-1]['expr'], ctx_hint)
            return
        if k == 'Match':
            for a in e['arms']:
                tails(a['body'], ctx_hint)
            return
        if k == 'If':
            tails(e['then'], ctx_hint)
            if e.get('else') is not None:
                tails(e['else'], ctx_hint)
            return
        if k == 'Return':
            return      # recorded through its exit event
        def let_init(x):
            """the initialiser of an immutable, never re-assigned `let v = match/if/{..}` that `x` names, else None"""
            if x['k'] != 'Path' or len(x['path']['segs']) != 1:
                return None
            ev0 = by_node.get(id(x)) or ctx_hint
            sc = getattr(ev0, 'scope', None) or fw.root
            tmx = cx.gm.terms_of(fw)
            sc2 = tmx.scope_of_node(x) or sc
            d = sc2.lookup(x['path']['s']) if sc2 is not None else None
            if d is None:
                cands = [d_ for d_ in fw.defs if d_.name == x['path']['s']]
                d = cands[0] if len(cands) == 1 else None
            if d is None or d.kind != 'let' or d.mutable or d.assigns or d.init is None or d.init['k'] not in ('Match', 'If', 'Block') or getattr(d, 'twins', None):
                return None
            return d.init
        li = let_init(e)
        if li is not None:
            tails(li, ctx_hint)
            return
        if k == 'Call' and e['func']['k'] == 'Path' and e['func']['path']['s'] == 'Ok' and len(e['args']) == 1 and let_init(e['args'][0]) is not None:
            n0 = len(out)
            tails(let_init(e['args'][0]), ctx_hint)
            for i_ in range(n0, len(out)):
                out[i_] = out[i_][:2] + ('ok-wrapped',) + out[i_][3:]
            return
        if k == 'Call' and e['func']['k'] == 'Path' and e['func']['path']['s'] == 'Ok' and len(e['args']) == 1 and e['args'][0]['k'] in ('Match', 'If', 'Block'):
            n0 = len(out)
            tails(e['args'][0], ctx_hint)
            for i_ in range(n0, len(out)):
                out[i_] = out[i_][:2] + ('ok-wrapped',) + out[i_][3:]
            return
        ev = by_node.get(id(e)) or ctx_hint
        if ev is not None:
            out.append((e, ev.ctx, 'tail', ev))
    for ev in fw.events:
        if ev.kind == 'exit' and ev.how == 'return' and ev.value is not None:
            tails(ev.value, ev)
    tails(f.block, None)
    return out


def kinds_of_ctx(ctx, al=None):
    out = []
    for c in ctx:
        if c['k'] == 'arm':
            p = c['pat']
            e = c.get('scrut') or {}
            while e.get('k') in ('Ref', 'Paren'):
                e = e['expr']
            if p['k'] == 'Wild':
                out.append('_')
            elif e.get('k') == 'MethodCall' and e['method'] in ('parse_args', 'parse') and e.get('turbofish') and pat_head(p) in ('Ok', 'Err') and c.get('narms') == 2:
                # `match x.parse_args::<T>() { Ok(v) => .., Err(_) => .. }` is `if let Ok(v) = x.parse_args::<T>() { .. } else { .. }`
                t = e['turbofish'][0]
                out.append(('' if pat_head(p) == 'Ok' else '!') + 'parse<%s>' % (ty_s(t['ty']).replace(' ', '') if t['k'] == 'Type' else '?'))
            elif p['k'] in ('TupleStruct', 'Struct') and _nested_heads(p):
                # `Expr::Lit(ExprLit { lit: Lit::Str(s), .. })` stands for the nested matches it abbreviates
                out += _all_heads(p)
            else:
                out.append(pat_head(p))
        elif c['k'] == 'iflet' and c['pat']['k'] in ('Tuple',) or (c['k'] == 'iflet' and c['pat']['k'] in ('TupleStruct', 'Struct') and _nested_heads(c['pat'])):
            # one `if let` over a tuple / nested pattern stands for the nested `if let`s it abbreviates
            for h_ in _all_heads(c['pat']):
                out.append(('' if c['pol'] else '!') + h_)
        elif c['k'] == 'iflet':
            h = pat_head(c['pat'])
            e = c['expr']
            if e['k'] == 'MethodCall' and e['method'] in ('parse_args', 'parse') and e.get('turbofish'):
                t = e['turbofish'][0]
                h = 'parse<%s>' % (ty_s(t['ty']).replace(' ', '') if t['k'] == 'Type' else '?')
            out.append(('' if c['pol'] else '!') + h)
        elif c['k'] == 'if':
            out.append(('' if c['pol'] else '!') + 'if(' + (al.text(c['cond']) if al is not None else es(c['cond']).replace(' ', '')) + ')')
        elif c['k'] == 'survive':
            pass
    return tuple(out)


def _all_heads(p):
    """path heads of a (nested) pattern, outermost first, left to right"""
    k = p['k']
    out = []
    if k in ('TupleStruct', 'Struct', 'Path'):
        if k == 'TupleStruct' and p['elems'] and all(e['k'] == 'Lit' for e in p['elems']):
            return [pat_s(p).replace(' ', '')]
        if not (k == 'Struct' and p['path']['s'][:1].isupper() and '::' not in p['path']['s'] and p['path']['s'].startswith('Expr')):
            out.append(p['path']['s'])
        subs = p.get('elems') or [f['pat'] for f in p.get('fields', [])]
        for e in subs:
            out += _all_heads(e)
    elif k == 'Tuple':
        for e in p['elems']:
            out += _all_heads(e)
    elif k in ('Ref', 'Type'):
        out += _all_heads(p['pat'])
    elif k == 'Ident' and p.get('sub'):
        out += _all_heads(p['sub'])
    return out


def _nested_heads(p):
    return len(_all_heads(p)) > 1


def pat_head(p):
    if p['k'] == 'TupleStruct' and p['elems'] and all(e['k'] == 'Lit' for e in p['elems']):
        return pat_s(p).replace(' ', '')     # `Bool(true)`: the literal is part of the case
    if p['k'] in ('TupleStruct', 'Struct', 'Path'):
        return p['path']['s']
    if p['k'] == 'Ref':
        return pat_head(p['pat'])
    if p['k'] == 'Ident':
        return p['name']
    return pat_s(p)


def subst_idents(node, mapping):
    """deep copy of an expression with single-segment paths renamed by `mapping` (name -> replacement expr json)"""
    if isinstance(node, list):
        return [subst_idents(x, mapping) for x in node]
    if not isinstance(node, dict):
        return node
    if node.get('k') == 'Path' and len(node.get('path', {}).get('segs', [])) == 1 and node['path']['s'] in mapping:
        return mapping[node['path']['s']]
    return {k: (subst_idents(v, mapping) if not (isinstance(k, str) and k.startswith('_')) else v) for k, v in node.items()}


def inline_private_helper(cx, f, v, depth=0):
    """`helper(args)` where helper is a private, single-expression function of the same module that is not itself one of the
    documented conversion helpers: replaced by its body with the arguments substituted (an extracted helper changes nothing)"""
    if depth > 3 or v['k'] != 'Call' or v['func']['k'] != 'Path':
        return v
    segs = [x['id'] for x in v['func']['path']['segs']]
    if segs[-1].startswith('meta_') or segs[-1].startswith('auto_adjust') or len(segs) != 1:
        return v
    gs = cx.crate.find_fn(f.module, segs, f.self_ty)
    if len(gs) != 1 or gs[0].module is not f.module:
        return v
    g = gs[0]
    leaves = result_leaves(cx, g)
    if len(leaves) != 1 or leaves[0][1]:
        return v
    names = [p_[0] for p_ in g.params() if p_[0] != 'self']
    if len(names) != len(v['args']):
        return v
    mapping = {}
    for n_, a_ in zip(names, v['args']):
        x = a_
        while x['k'] == 'Ref':
            x = x['expr']
        mapping[n_] = x
    return inline_private_helper(cx, f, subst_idents(leaves[0][0], mapping), depth + 1)


def canon_text(cx, f, v, al=None, depth=0):
    """alpha-normal text of a result expression (sa/alpha.py): local names replaced by canonical ones; a call of a private
    single-expression helper of the same module is replaced by the helper's own canonical result with the arguments substituted"""
    import re
    al = al or Alpha(f)
    if depth < 3 and v['k'] == 'Call' and v['func']['k'] == 'Path' and len(v['func']['path']['segs']) == 1 \
            and not v['func']['path']['s'].startswith('meta_') and not v['func']['path']['s'].startswith('auto_adjust'):
        gs = cx.crate.find_fn(f.module, [v['func']['path']['s']], f.self_ty)
        if len(gs) == 1 and gs[0].module is f.module:
            g = gs[0]
            leaves = result_leaves(cx, g)
            names = [p_[0] for p_ in g.params() if p_[0] != 'self']
            if len(leaves) == 1 and not leaves[0][1] and len(names) == len(v['args']):
                body = canon_text(cx, g, leaves[0][0], None, depth + 1)
                args = []
                for a_ in v['args']:
                    x = a_
                    while x['k'] == 'Ref':
                        x = x['expr']
                    args.append(al.text(x) if id(x) in al.env_at else es(al.subst(x, al.env_at.get(id(v), {}))).replace(' ', ''))
                return re.sub(r'\$(\d+)', lambda m_: args[int(m_.group(1))] if int(m_.group(1)) < len(args) else m_.group(0), body)
    return al.text(v)


def table(cx, f):
    rows = []
    al = Alpha(f)
    for v, ctx, how, ev in result_leaves(cx, f):
        t = canon_text(cx, f, v, al)
        rows.append((kinds_of_ctx(ctx, al), 'Ok(%s)' % t if how == 'ok-wrapped' else t, ev))
    return rows


