"""Crate-local call graph: resolves `call` / `mcall` events to crate functions."""
from .syn import es, path_s, ty_s
from .terms import strip_refs


class CallGraph:
    def __init__(self, cx):
        self.cx = cx
        self.crate = cx.crate
        self.edges = {}      # id(fn) -> list of (event, [callee fns])
        self.callers = {}    # id(callee fn) -> list of (caller fn, event, args, has_self)
        self.by_method = {}
        for f in self.crate.fns:
            self.by_method.setdefault(f.name, []).append(f)
        for f in self.crate.fns:
            fw = cx.fw(f)
            lst = []
            for ev in fw.events:
                if ev.kind == 'call':
                    cs = self.resolve_call(fw, ev)
                    if cs:
                        lst.append((ev, cs))
                        for c in cs:
                            self.callers.setdefault(id(c), []).append((f, ev, ev.args, False))
                elif ev.kind == 'mcall':
                    cs = self.resolve_mcall(fw, ev)
                    if cs:
                        lst.append((ev, cs))
                        for c in cs:
                            self.callers.setdefault(id(c), []).append((f, ev, ev.args, True))
            self.edges[id(f)] = lst

    def resolve_call(self, fw, ev):
        f = ev.func
        if f['k'] != 'Path':
            return []
        segs = [s['id'] for s in f['path']['segs']]
        fn = fw.fn
        if f['path']['global']:
            return []
        # plain function / associated function of a crate type
        r = self.crate.find_fn(fn.module, segs, fn.self_ty)
        if r:
            return self.overload_filter(r, ev.args, False)
        if len(segs) >= 2:
            # Type::method — resolve the type, then look for an impl fn
            tr = self.crate.resolve(fn.module, segs[:-1])
            if tr[0] == 'crate':
                tp = tr[1]
                out = [g for g in self.crate.fns if g.name == segs[-1] and g.self_ty == tp[-1] and g.module.path == tp[:-1]]
                if out:
                    return out
                # impl may live in another module than the type (e.g. impl blocks next to the type always here)
                out = [g for g in self.crate.fns if g.name == segs[-1] and g.self_ty == tp[-1]]
                if out:
                    return out
            if segs[0] == 'Self' and fn.self_ty:
                return self.overload_filter([g for g in self.crate.fns if g.name == segs[-1] and g.self_ty == fn.self_ty and g.module.path == fn.module.path], ev.args, False)
        return []

    def overload_filter(self, cands, args, has_self):
        """several impls (e.g. From<T> and From<&T>) share a qualified name: select by the reference-ness of the
        first argument; cfg twins are kept."""
        if len(cands) <= 1 or not args:
            return cands
        a = args[0]
        is_ref = a['k'] == 'Ref'
        out = []
        for c in cands:
            ps = [p for p in c.sig['inputs'] if p['k'] == 'Typed']
            if not ps:
                out.append(c)
                continue
            t = ps[0]['ty']
            if (t['k'] == 'Ref') == is_ref:
                out.append(c)
        return out or cands

    def recv_type(self, fw, recv, scope):
        """(module path, type name) of a receiver expression when it is evidently a crate type."""
        r = strip_refs(recv)
        fn = fw.fn
        if r['k'] == 'Struct':
            tr = self.crate.resolve(fn.module, [s['id'] for s in r['path']['segs']])
            if tr[0] == 'crate':
                return tr[1]
        if r['k'] == 'Path':
            segs = [s['id'] for s in r['path']['segs']]
            if segs == ['self'] and fn.self_ty:
                return fn.module.path + (fn.self_ty,)
            if len(segs) == 1:
                d = scope.lookup(segs[0])
                if d is None:
                    tr = self.crate.resolve(fn.module, segs)
                    if tr[0] == 'crate' and (tr[1][:-1], tr[1][-1]) in self.crate.types:
                        return tr[1]
                elif d.ty is None and d.kind == 'let' and d.init is not None and strip_refs(d.init)['k'] == 'Struct' and not d.assigns:
                    # `let b = Builder { .. }; b.method(..)`
                    return self.recv_type(fw, d.init, scope)
                elif d.ty is not None:
                    t = d.ty
                    while t['k'] == 'Ref':
                        t = t['elem']
                    if t['k'] == 'Path':
                        tr = self.crate.resolve(fn.module, [s['id'] for s in t['path']['segs']])
                        if tr[0] == 'crate' and (tr[1][:-1], tr[1][-1]) in self.crate.types:
                            return tr[1]
            else:
                tr = self.crate.resolve(fn.module, segs)
                if tr[0] == 'crate' and (tr[1][:-1], tr[1][-1]) in self.crate.types:
                    return tr[1]
        return None

    def resolve_mcall(self, fw, ev):
        name = ev.method
        cands = self.by_method.get(name)
        if not cands:
            return []
        cands = [c for c in cands if c.self_ty is not None and c.sig['inputs'] and c.sig['inputs'][0]['k'] == 'Self']
        if not cands:
            return []
        tp = self.recv_type(fw, ev.recv, ev.scope)
        if tp is not None:
            out = [c for c in cands if c.self_ty == tp[-1] and c.module.path == tp[:-1]]
            if out:
                return out
            out = [c for c in cands if c.self_ty == tp[-1]]
            if out:
                return out
        # unique method name in the crate (same name on one type only)
        owners = set((c.module.path, c.self_ty) for c in cands)
        if len(owners) == 1 and name not in STD_METHOD_NAMES:
            return cands
        return []

    def callees(self, fn):
        out = []
        for ev, cs in self.edges.get(id(fn), []):
            out += cs
        return out

    def reachable_from(self, roots):
        seen = {}
        stack = list(roots)
        while stack:
            f = stack.pop()
            if id(f) in seen:
                continue
            seen[id(f)] = f
            stack += self.callees(f)
        return list(seen.values())

    def sccs(self):
        """functions that can reach themselves."""
        out = []
        for f in self.crate.fns:
            seen = set()
            stack = list(self.callees(f))
            while stack:
                g = stack.pop()
                if g is f:
                    out.append(f)
                    break
                if id(g) in seen:
                    continue
                seen.add(id(g))
                stack += self.callees(g)
        return out


STD_METHOD_NAMES = {'clone', 'fmt', 'eq', 'cmp', 'partial_cmp', 'hash', 'from', 'parse', 'to_tokens', 'span', 'into', 'default',
                    'next', 'len', 'is_empty', 'iter', 'as_str', 'to_string'}
