"""Desugaring pre-pass over the source model: rewrites a few equivalent spellings into the one canonical form the rules know, so
that a behaviour-preserving change of spelling is not reported.

N1  `X.ok_or_else(|| E)?` / `X.ok_or(E)?`        ->  `match X { Some(__v) => __v, None => return Err(E) }`
N2  `if matches!(X, P) { A } else { B }`           ->  `if let P = X { A } else { B }`           (no guard)
N3  `(E)`                                          ->  `E` for parenthesised conditions
N4  `C.extend(I.map(|p| E));`                      ->  `for p in I { C.push(E); }`   (`C.extend(E)` when E is a quote! template)
N5  `W.predicates.extend(X);`                      ->  `for __item in X { W.predicates.push(__item); }`
"""


def _path(s, l):
    return {'k': 'Path', 'path': {'segs': [{'id': x} for x in s.split('::')], 's': s, 'global': False}, 'qself': False, 'l': l}


def _ppath(s, l):
    return {'segs': [{'id': x} for x in s.split('::')], 's': s, 'global': False}


def norm(n):
    if isinstance(n, list):
        return [norm(x) for x in n]
    if not isinstance(n, dict):
        return n
    n = {k: (norm(v) if not (isinstance(k, str) and k.startswith('_')) else v) for k, v in n.items()}
    k = n.get('k')
    if k == 'Try':
        x = n.get('expr')
        if isinstance(x, dict) and x.get('k') == 'MethodCall' and x.get('method') in ('ok_or_else', 'ok_or') and len(x.get('args', [])) == 1:
            a = x['args'][0]
            err = None
            if x['method'] == 'ok_or':
                err = a
            elif a.get('k') == 'Closure' and not a.get('params'):
                err = a['body']
                while err.get('k') == 'Block' and len(err['stmts']) == 1 and err['stmts'][0]['k'] == 'Expr' and not err['stmts'][0]['semi']:
                    err = err['stmts'][0]['expr']
                if err.get('k') == 'Block':
                    err = None
            if err is not None:
                l = n.get('l', 0)
                some_pat = {'k': 'TupleStruct', 'path': _ppath('Some', l), 'qself': False,
                            'elems': [{'k': 'Ident', 'name': '__ok_value', 'by_ref': False, 'mut': False, 'sub': None, 'l': l}], 'l': l}
                none_pat = {'k': 'Ident', 'name': 'None', 'by_ref': False, 'mut': False, 'sub': None, 'l': l}
                ret = {'k': 'Return', 'expr': {'k': 'Call', 'func': _path('Err', l), 'args': [err], 'l': l}, 'l': l}
                return {'k': 'Match', 'expr': x['recv'], 'l': l, 'desugared': 'ok_or?',
                        'arms': [{'pat': some_pat, 'guard': None, 'body': _path('__ok_value', l), 'attrs': [], 'l': l},
                                 {'pat': none_pat, 'guard': None, 'body': ret, 'attrs': [], 'l': l}]}
    if k == 'Expr' and isinstance(n.get('expr'), dict) and n['expr'].get('k') == 'MethodCall' and n['expr'].get('method') == 'extend' \
            and len(n['expr'].get('args', [])) == 1 and 'semi' in n:
        call = n['expr']
        a = call['args'][0]
        l = call.get('l', 0)
        loop = None
        if a.get('k') == 'MethodCall' and a.get('method') == 'map' and len(a.get('args', [])) == 1 and a['args'][0].get('k') == 'Closure' \
                and len(a['args'][0].get('params', [])) == 1:
            clo = a['args'][0]
            body = clo['body']
            while body.get('k') == 'Block' and len(body['stmts']) == 1 and body['stmts'][0]['k'] == 'Expr' and not body['stmts'][0]['semi']:
                body = body['stmts'][0]['expr']
            if body.get('k') != 'Block':
                is_tmpl = body.get('k') == 'Macro' and isinstance(body.get('mac'), dict) and 'tmpl' in body['mac']
                inner = {'k': 'MethodCall', 'recv': call['recv'], 'method': 'extend' if is_tmpl else 'push', 'args': [body], 'turbofish': None, 'l': body.get('l', l)}
                loop = {'k': 'For', 'pat': clo['params'][0], 'expr': a['recv'], 'label': None, 'l': l, 'desugared': 'extend(map)',
                        'body': {'k': 'Block', 'stmts': [{'k': 'Expr', 'expr': inner, 'semi': True, 'l': l}], 'l': l}}
        elif call['recv'].get('k') == 'Field' and call['recv'].get('member') == 'predicates':
            item = {'k': 'Ident', 'name': '__item', 'by_ref': False, 'mut': False, 'sub': None, 'l': l}
            inner = {'k': 'MethodCall', 'recv': call['recv'], 'method': 'push', 'args': [_path('__item', l)], 'turbofish': None, 'l': l}
            loop = {'k': 'For', 'pat': item, 'expr': a, 'label': None, 'l': l, 'desugared': 'extend',
                    'body': {'k': 'Block', 'stmts': [{'k': 'Expr', 'expr': inner, 'semi': True, 'l': l}], 'l': l}}
        if loop is not None:
            n = dict(n)
            n['expr'] = loop
            n['semi'] = False
            return n
    if k == 'If':
        c = n.get('cond')
        while isinstance(c, dict) and c.get('k') == 'Paren':
            c = c['expr']
            n['cond'] = c
        if isinstance(c, dict) and c.get('k') == 'Macro' and isinstance(c.get('mac'), dict) and c['mac'].get('matches') and not c['mac']['matches'].get('guard'):
            m = c['mac']['matches']
            n['cond'] = {'k': 'Let', 'pat': m['pat'], 'expr': m['expr'], 'l': c.get('l', n.get('l', 0)), 'desugared': 'matches!'}
    return n
