"""Desugaring pre-pass over the source model: rewrites a few equivalent spellings into the one canonical form the rules know, so
that a behaviour-preserving change of spelling is not reported.

N1  `X.ok_or_else(|| E)?` / `X.ok_or(E)?`        ->  `match X { Some(__v) => __v, None => return Err(E) }`
N2  `if matches!(X, P) { A } else { B }`           ->  `if let P = X { A } else { B }`           (no guard)
N3  `(E)`                                          ->  `E` for parenthesised conditions
N4  `C.extend(I.map(|p| E));`                      ->  `for p in I { C.push(E); }`   (`C.extend(E)` when E is a quote! template)
N6  `if let Some(p) = I.find(|q| C) { ..; return/continue/break }`  ->  `for p in I { if C[q:=p] { .. } }`   (the body leaves the loop)
N9  `match X { Some(p) if G => A, _ => B }`       ->  `if let Some(p) = X { if G { A } else { B } } else { B }`
N7  `I.filter(|a| C).filter_map(|b| B).map(|c| E).collect()`  ->  `{ let mut acc = new(); for x in I { .. acc.push(..) } acc }`
N10 `let v = X.any(|p| Y.any(|q| C));` (any nesting depth)  ->  `let mut v = false; for p in X { for q in Y { if C { v = true; } } }`
N11 `if a != b { X } else { Y }`                   ->  `if a == b { Y } else { X }`   (also `if !c {X} else {Y}` -> `if c {Y} else {X}`)
N12 `let x = { #[cfg(p)] { a } #[cfg(not(p))] { b } };`  ->  the cfg-twin bindings `#[cfg(p)] let x = a; #[cfg(not(p))] let x = b;`
N5  `W.predicates.extend(X);`                      ->  `for __item in X { W.predicates.push(__item); }`
"""


def _path(s, l):
    return {'k': 'Path', 'path': {'segs': [{'id': x} for x in s.split('::')], 's': s, 'global': False}, 'qself': False, 'l': l}


def _ppath(s, l):
    return {'segs': [{'id': x} for x in s.split('::')], 's': s, 'global': False}


def _rename_ident(node, old, new):
    if isinstance(node, list):
        return [_rename_ident(x, old, new) for x in node]
    if not isinstance(node, dict):
        return node
    if node.get('k') == 'Path' and 'path' in node and len(node['path'].get('segs', [])) == 1 and node['path']['s'] == old:
        return _path(new, node.get('l', 0))
    return {k: (_rename_ident(v, old, new) if not (isinstance(k, str) and k.startswith('_')) else v) for k, v in node.items()}


def _cfg_block_let(st):
    """N12: `let x = { #[cfg(a)] { A } #[cfg(not(a))] { B } };` as cfg-twin lets"""
    if st.get('k') != 'Local' or st.get('init') is None or st.get('else') is not None or st.get('attrs'):
        return None
    b = st['init']
    if b.get('k') != 'Block' or len(b.get('stmts', [])) < 2:
        return None
    parts = []
    for s_ in b['stmts']:
        if s_.get('k') != 'Expr' or not isinstance(s_.get('expr'), dict):
            return None
        e = s_['expr']
        attrs = [a for a in (e.get('attrs') or []) if a.get('name') == 'cfg']
        if len(attrs) != 1:
            return None
        e2 = dict(e)
        e2['attrs'] = [a for a in (e.get('attrs') or []) if a.get('name') != 'cfg']
        while e2.get('k') == 'Block' and len(e2['stmts']) == 1 and e2['stmts'][0]['k'] == 'Expr' and not e2['stmts'][0]['semi']:
            e2 = e2['stmts'][0]['expr']
        parts.append((attrs[0], e2))
    out = []
    for attr, e2 in parts:
        d = dict(st)
        d['init'] = e2
        d['attrs'] = [attr]
        out.append(d)
    return out


def _any_let(st):
    """N10: a `let v = <nested any>;` statement as a flag set in nested loops"""
    if st.get('k') != 'Local' or st.get('init') is None or st.get('else') is not None:
        return None
    p = st['pat']
    while p.get('k') == 'Type':
        p = p['pat']
    if p.get('k') != 'Ident' or p.get('mut') or p.get('by_ref'):
        return None
    l = st.get('l', 0)
    loops = []
    e = st['init']
    while isinstance(e, dict) and e.get('k') == 'MethodCall' and e.get('method') == 'any' and len(e.get('args', [])) == 1 \
            and e['args'][0].get('k') == 'Closure' and len(e['args'][0]['params']) == 1:
        clo = e['args'][0]
        loops.append((clo['params'][0], e['recv']))
        e = clo['body']
        while e.get('k') == 'Block' and len(e['stmts']) == 1 and e['stmts'][0]['k'] == 'Expr' and not e['stmts'][0]['semi']:
            e = e['stmts'][0]['expr']
    if not loops or e.get('k') == 'Block':
        return None
    name = p['name']
    assign = {'k': 'Expr', 'semi': True, 'l': l, 'expr': {'k': 'Assign', 'l_': _path(name, l), 'r_': {'k': 'Lit', 'lit': {'k': 'Bool', 'v': True}, 'l': l}, 'l': l}}
    body = {'k': 'Expr', 'semi': False, 'l': l, 'expr': {'k': 'If', 'cond': e, 'then': {'k': 'Block', 'stmts': [assign], 'l': l}, 'else': None, 'l': l}}
    for pat, it in reversed(loops):
        body = {'k': 'Expr', 'semi': False, 'l': l, 'expr': {'k': 'For', 'pat': pat, 'expr': it, 'label': None, 'l': l, 'desugared': 'any',
                                                           'body': {'k': 'Block', 'stmts': [body], 'l': l}}}
    decl = dict(st)
    decl['pat'] = {'k': 'Ident', 'name': name, 'by_ref': False, 'mut': True, 'sub': None, 'l': l}
    decl['init'] = {'k': 'Lit', 'lit': {'k': 'Bool', 'v': False}, 'l': l}
    body = dict(body)
    body['attrs'] = st.get('attrs', [])
    if isinstance(body['expr'], dict):
        body['expr'] = dict(body['expr'])
        body['expr']['attrs'] = st.get('attrs', [])
    return [decl, body]


def norm(n):
    if isinstance(n, list):
        return [norm(x) for x in n]
    if not isinstance(n, dict):
        return n
    n = {k: (norm(v) if not (isinstance(k, str) and k.startswith('_')) else v) for k, v in n.items()}
    k = n.get('k')
    if k == 'Block' and isinstance(n.get('stmts'), list):
        out = []
        for st in n['stmts']:
            rep = _any_let(st)
            if rep is None:
                rep = _cfg_block_let(st)
            out.extend(rep if rep is not None else [st])
        n['stmts'] = out
    if k == 'Try':
        x = n.get('expr')
        if isinstance(x, dict) and x.get('k') == 'MethodCall' and x.get('method') in ('ok_or_else', 'ok_or') and len(x.get('args', [])) == 1:
            a = x['args'][0]
            err = None
            if x['method'] == 'ok_or':
                err = a
            elif a.get('k') == 'Closure' and not a.get('params'):
                err = a['body']
                while err.get('k') == 'Block' and len(err['stmts']) == 1 and err['stmts'][0]['k'] == 'Expr' and not err['stmts'][0]['semi']:
                    err = err['stmts'][0]['expr']
                if err.get('k') == 'Block':
                    err = None
            if err is not None:
                l = n.get('l', 0)
                some_pat = {'k': 'TupleStruct', 'path': _ppath('Some', l), 'qself': False,
                            'elems': [{'k': 'Ident', 'name': '__ok_value', 'by_ref': False, 'mut': False, 'sub': None, 'l': l}], 'l': l}
                none_pat = {'k': 'Ident', 'name': 'None', 'by_ref': False, 'mut': False, 'sub': None, 'l': l}
                ret = {'k': 'Return', 'expr': {'k': 'Call', 'func': _path('Err', l), 'args': [err], 'l': l}, 'l': l}
                return {'k': 'Match', 'expr': x['recv'], 'l': l, 'desugared': 'ok_or?',
                        'arms': [{'pat': some_pat, 'guard': None, 'body': _path('__ok_value', l), 'attrs': [], 'l': l},
                                 {'pat': none_pat, 'guard': None, 'body': ret, 'attrs': [], 'l': l}]}
    if k == 'Expr' and isinstance(n.get('expr'), dict) and n['expr'].get('k') == 'MethodCall' and n['expr'].get('method') == 'extend' \
            and len(n['expr'].get('args', [])) == 1 and 'semi' in n:
        call = n['expr']
        a = call['args'][0]
        l = call.get('l', 0)
        loop = None
        if a.get('k') == 'MethodCall' and a.get('method') == 'map' and len(a.get('args', [])) == 1 and a['args'][0].get('k') == 'Closure' \
                and len(a['args'][0].get('params', [])) == 1:
            clo = a['args'][0]
            body = clo['body']
            while body.get('k') == 'Block' and len(body['stmts']) == 1 and body['stmts'][0]['k'] == 'Expr' and not body['stmts'][0]['semi']:
                body = body['stmts'][0]['expr']
            if body.get('k') != 'Block':
                is_tmpl = body.get('k') == 'Macro' and isinstance(body.get('mac'), dict) and 'tmpl' in body['mac']
                inner = {'k': 'MethodCall', 'recv': call['recv'], 'method': 'extend' if is_tmpl else 'push', 'args': [body], 'turbofish': None, 'l': body.get('l', l)}
                loop = {'k': 'For', 'pat': clo['params'][0], 'expr': a['recv'], 'label': None, 'l': l, 'desugared': 'extend(map)',
                        'body': {'k': 'Block', 'stmts': [{'k': 'Expr', 'expr': inner, 'semi': True, 'l': l}], 'l': l}}
        elif call['recv'].get('k') == 'Field' and call['recv'].get('member') == 'predicates':
            item = {'k': 'Ident', 'name': '__item', 'by_ref': False, 'mut': False, 'sub': None, 'l': l}
            inner = {'k': 'MethodCall', 'recv': call['recv'], 'method': 'push', 'args': [_path('__item', l)], 'turbofish': None, 'l': l}
            loop = {'k': 'For', 'pat': item, 'expr': a, 'label': None, 'l': l, 'desugared': 'extend',
                    'body': {'k': 'Block', 'stmts': [{'k': 'Expr', 'expr': inner, 'semi': True, 'l': l}], 'l': l}}
        if loop is not None:
            n = dict(n)
            n['expr'] = loop
            n['semi'] = False
            return n
    if k == 'MethodCall' and n.get('method') == 'collect' and not n.get('args'):
        chain = []
        x = n['recv']
        ok = True
        while isinstance(x, dict) and x.get('k') == 'MethodCall' and x.get('method') in ('filter', 'filter_map', 'map'):
            if len(x.get('args', [])) != 1 or x['args'][0].get('k') != 'Closure' or len(x['args'][0].get('params', [])) != 1:
                ok = False
                break
            chain.append((x['method'], x['args'][0]))
            x = x['recv']
        if ok and chain:
            chain.reverse()
            l = n.get('l', 0)
            acc = '__collected'

            def let(pat, init):
                return {'k': 'Local', 'pat': pat, 'ty': None, 'init': init, 'else': None, 'attrs': [], 'l': l}

            def ident(name, mut=False):
                return {'k': 'Ident', 'name': name, 'by_ref': False, 'mut': mut, 'sub': None, 'l': l}

            def body_of(clo):
                return clo['body']
            cur = '__it0'
            stmts_stack = []      # list of (wrapper builder) applied innermost last
            inner = []            # statements of the current nesting level
            levels = [inner]
            wrappers = []
            for i, (m, clo) in enumerate(chain):
                p = clo['params'][0]
                if p.get('k') == 'Type':
                    p = p['pat']
                levels[-1].append(let(p, _path(cur, l)))
                nxt = '__it%d' % (i + 1)
                if m == 'map':
                    levels[-1].append(let(ident(nxt), body_of(clo)))
                    cur = nxt
                elif m == 'filter_map':
                    new_level = []
                    some_pat = {'k': 'TupleStruct', 'path': _ppath('Some', l), 'qself': False, 'elems': [ident(nxt)], 'l': l}
                    levels[-1].append({'k': 'Expr', 'semi': False, 'l': l, 'expr': {'k': 'If', 'cond': {'k': 'Let', 'pat': some_pat, 'expr': body_of(clo), 'l': l},
                                                                                   'then': {'k': 'Block', 'stmts': new_level, 'l': l}, 'else': None, 'l': l}})
                    levels.append(new_level)
                    cur = nxt
                else:   # filter: the item itself goes on
                    new_level = []
                    levels[-1].append({'k': 'Expr', 'semi': False, 'l': l, 'expr': {'k': 'If', 'cond': body_of(clo), 'then': {'k': 'Block', 'stmts': new_level, 'l': l}, 'else': None, 'l': l}})
                    levels.append(new_level)
            levels[-1].append({'k': 'Expr', 'semi': True, 'l': l, 'expr': {'k': 'MethodCall', 'recv': _path(acc, l), 'method': 'push', 'args': [_path(cur, l)], 'turbofish': None, 'l': l}})
            loop = {'k': 'For', 'pat': ident('__it0'), 'expr': x, 'label': None, 'l': l, 'desugared': 'collect',
                    'body': {'k': 'Block', 'stmts': inner, 'l': l}}
            init = {'k': 'Call', 'func': _path('Default::default', l), 'args': [], 'l': l}
            return {'k': 'Block', 'l': l, 'desugared': 'collect', 'stmts': [
                let(ident(acc, True), init),
                {'k': 'Expr', 'expr': loop, 'semi': False, 'l': l},
                {'k': 'Expr', 'expr': _path(acc, l), 'semi': False, 'l': l}]}
    if k == 'Match' and len(n.get('arms', [])) == 2:
        a0, a1 = n['arms']
        if a0.get('guard') is not None and a1.get('guard') is None and a1['pat'].get('k') == 'Wild' and a0['pat'].get('k') == 'TupleStruct' \
                and a0['pat']['path']['s'] == 'Some':
            import copy
            l = n.get('l', 0)

            def blk(b):
                return b if b.get('k') == 'Block' else {'k': 'Block', 'stmts': [{'k': 'Expr', 'expr': b, 'semi': False, 'l': b.get('l', l)}], 'l': b.get('l', l)}
            inner = {'k': 'If', 'cond': a0['guard'], 'then': blk(a0['body']), 'else': blk(copy.deepcopy(a1['body'])), 'l': l}
            return {'k': 'If', 'cond': {'k': 'Let', 'pat': a0['pat'], 'expr': n['expr'], 'l': l}, 'desugared': 'guarded-match', 'l': l,
                    'then': {'k': 'Block', 'stmts': [{'k': 'Expr', 'expr': inner, 'semi': False, 'l': l}], 'l': l},
                    'else': blk(copy.deepcopy(a1['body']))}
    if k == 'If' and n.get('else') is None and isinstance(n.get('cond'), dict) and n['cond'].get('k') == 'Let':
        c = n['cond']
        pat, ex = c['pat'], c['expr']
        if pat.get('k') == 'TupleStruct' and pat['path']['s'] == 'Some' and len(pat['elems']) == 1 and pat['elems'][0].get('k') == 'Ident' \
                and ex.get('k') == 'MethodCall' and ex.get('method') == 'find' and len(ex.get('args', [])) == 1 and ex['args'][0].get('k') == 'Closure' \
                and len(ex['args'][0]['params']) == 1:
            q = ex['args'][0]['params'][0]
            while q.get('k') in ('Ref', 'Type'):
                q = q['pat']
            then = n['then']
            last = then['stmts'][-1] if then.get('stmts') else None
            diverges = last is not None and last['k'] == 'Expr' and last['expr'].get('k') in ('Return', 'Break', 'Continue')
            if q.get('k') == 'Ident' and diverges:
                pname = pat['elems'][0]['name']
                cond = _rename_ident(ex['args'][0]['body'], q['name'], pname)
                while cond.get('k') == 'Block' and len(cond['stmts']) == 1 and cond['stmts'][0]['k'] == 'Expr' and not cond['stmts'][0]['semi']:
                    cond = cond['stmts'][0]['expr']
                l = n.get('l', 0)
                inner = {'k': 'If', 'cond': cond, 'then': then, 'else': None, 'l': l}
                return {'k': 'For', 'pat': pat['elems'][0], 'expr': ex['recv'], 'label': None, 'l': l, 'desugared': 'find',
                        'body': {'k': 'Block', 'stmts': [{'k': 'Expr', 'expr': inner, 'semi': False, 'l': l}], 'l': l}}
    if k == 'If' and n.get('else') is not None and isinstance(n.get('cond'), dict) and n['else'].get('k') == 'Block':
        c = n['cond']
        while c.get('k') == 'Paren':
            c = c['expr']
        flipped = None
        if c.get('k') == 'Binary' and c.get('op') == '!=':
            flipped = dict(c)
            flipped['op'] = '=='
        elif c.get('k') == 'Unary' and c.get('op') == '!':
            flipped = c['expr']
            while flipped.get('k') == 'Paren':
                flipped = flipped['expr']
            if flipped.get('k') == 'Let':
                flipped = None
        if flipped is not None:
            n = dict(n)
            n['cond'] = flipped
            n['then'], n['else'] = n['else'], n['then']
            n['desugared'] = 'flipped'
    if k == 'If':
        c = n.get('cond')
        while isinstance(c, dict) and c.get('k') == 'Paren':
            c = c['expr']
            n['cond'] = c
        if isinstance(c, dict) and c.get('k') == 'Macro' and isinstance(c.get('mac'), dict) and c['mac'].get('matches') and not c['mac']['matches'].get('guard'):
            m = c['mac']['matches']
            n['cond'] = {'k': 'Let', 'pat': m['pat'], 'expr': m['expr'], 'l': c.get('l', n.get('l', 0)), 'desugared': 'matches!'}
    return n
