"""Desugaring pre-pass over the source model: rewrites a few equivalent spellings into the one canonical form the rules know, so
that a behaviour-preserving change of spelling is not reported.

N1  `X.ok_or_else(|| E)?` / `X.ok_or(E)?`        ->  `match X { Some(__v) => __v, None => return Err(E) }`
N2  `if matches!(X, P) { A } else { B }`           ->  `if let P = X { A } else { B }`           (no guard)
N3  `(E)`                                          ->  `E` for parenthesised conditions
N4  `C.extend(I.map(|p| E));`                      ->  `for p in I { C.push(E); }`   (`C.extend(E)` when E is a quote! template)
N6  `if let Some(p) = I.find(|q| C) { ..; return/continue/break }`  ->  `for p in I { if C[q:=p] { .. } }`   (the body leaves the loop)
N9  `match X { Some(p) if G => A, _ => B }`       ->  `if let Some(p) = X { if G { A } else { B } } else { B }`
N7  `I.filter(|a| C).filter_map(|b| B).map(|c| E).collect()`  ->  `{ let mut acc = new(); for x in I { .. acc.push(..) } acc }`
N10 `let v = X.any(|p| Y.any(|q| C));` (any nesting depth)  ->  `let mut v = false; for p in X { for q in Y { if C { v = true; } } }`
N11 `if a != b { X } else { Y }`                   ->  `if a == b { Y } else { X }`   (also `if !c {X} else {Y}` -> `if c {Y} else {X}`)
N12 `let x = { #[cfg(p)] { a } #[cfg(not(p))] { b } };`  ->  the cfg-twin bindings `#[cfg(p)] let x = a; #[cfg(not(p))] let x = b;`
N13 `let mut v = Vec::new(); .. v.push(quote!(X)); .. quote!( .. #(#v sep)* .. )`  ->  `let mut v = TokenStream::new(); .. v.extend(quote!(X sep)); .. quote!( .. #v .. )`
    (pieces collected in a Vec<TokenStream> and interpolated with a repetition are a stream accumulator; `#(#v),*` — separator
    outside the group — is read the same way, which is exact wherever a trailing separator is legal)
N15 `match t { Enum::A => { X } #[cfg(c)] Enum::B => { Y } _ => {} }` as a statement, t a plain variable, every pattern a path of a
    unit variant  ->  `if t == Enum::A { X }  #[cfg(c)] if t == Enum::B { Y }`   (the patterns are disjoint, so the order is free)
N18 `match M.entry(K) { Entry::Occupied(o) => { A }, Entry::Vacant(v) => { .. v.insert(V) .. } }`  ->
    `if M.contains_key(&K) { A } else { .. M.insert(K, V) .. }`  (o unused)  /  `if let Some(o) = M.get_mut(&K) { A[o.into_mut() := o] } else { .. }`
N32 `C.then(|| X)` -> `if C { Some(X) } else { None }`
N31 `match (a, b) { (true, true) => .., .. }` over bool literals -> nested `if`s
N30 `I.try_for_each(|p| BODY)?;` -> `for p in I { BODY with Ok(()) -> nothing, Err(e) -> return Err(e) }`
N29 `let (a, b) = if C { (X1, X2) } else { (Y1, Y2) };` -> one conditional `let` per component
N28 `if C { return A; } REST; TAIL` at the top of a small function -> `if C { A } else { REST; TAIL }`
N27 `for x in I.filter(|p| C) { B }` (also through a single-use `let it = I.filter(..)`) -> `for x in I { if C { B } }`
N26 `let v = I.find(..); if let P = v { .. }` -> `if let P = I.find(..) { .. }` (then the find-loop desugaring applies)
N19 inside `if V.is_none() { .. }`:  `let mut it = I.filter(|q| C); if let Some(p) = it.next() { if it.next().is_none() { V = Some(E); } }`
    ->  `for p in I { if C[q:=p] { if V.is_some() { V = None; break; } V = Some(E); } }`   (unique-match selection)
N20 `let h = match S { P1 => f1, P2 => f2 }; .. h(args)` (h used exactly once, as the callee; every arm value a function path)
    ->  `match S { P1 => f1(args), P2 => f2(args) }` at the call   (picking a function pointer, then calling it once)
N21 `if let Data::A(..) = ast.data { X } else if let Data::B(..) = ast.data { Y } else { Z }`  ->  `match ast.data { Data::A(..) => X,
    Data::B(..) => Y, Data::<the remaining variant>(_) => Z }`   (syn::Data has exactly Struct, Enum, Union)
N22 `match S { A | B => BODY[match S { A => x, _ => y }], .. }`  ->  `match S { A => BODY[x], B => BODY[y], .. }`  (an or-pattern arm that looks the
    alternative up again is the arms written out)
N24 `let v = match X { P1 => K1(a), P2 if g => K2, P3 => K3 }; match v { K1(p) => A, K2 => B, K3 => C }` (v used nowhere else, every arm
    value a constructor)  ->  `match X { P1 => { let p = a; A }, P2 if g => B, P3 => C }`   (classify-then-dispatch on a private enum)
N25 `match X { .., P if g => A, P => B, .. }` (same pattern twice in a row, the first guarded)  ->  `match X { .., P => if g { A } else { B }, .. }`
N5  `W.predicates.extend(X);`                      ->  `for __item in X { W.predicates.push(__item); }`
"""


def _path(s, l):
    return {'k': 'Path', 'path': {'segs': [{'id': x} for x in s.split('::')], 's': s, 'global': False}, 'qself': False, 'l': l}


def _ppath(s, l):
    return {'segs': [{'id': x} for x in s.split('::')], 's': s, 'global': False}


def _rename_ident(node, old, new):
    if isinstance(node, list):
        return [_rename_ident(x, old, new) for x in node]
    if not isinstance(node, dict):
        return node
    if node.get('k') == 'Path' and 'path' in node and len(node['path'].get('segs', [])) == 1 and node['path']['s'] == old:
        return _path(new, node.get('l', 0))
    return {k: (_rename_ident(v, old, new) if not (isinstance(k, str) and k.startswith('_')) else v) for k, v in node.items()}


def _cfg_block_let(st):
    """N12: `let x = { #[cfg(a)] { A } #[cfg(not(a))] { B } };` as cfg-twin lets"""
    if st.get('k') != 'Local' or st.get('init') is None or st.get('else') is not None or st.get('attrs'):
        return None
    b = st['init']
    if b.get('k') != 'Block' or len(b.get('stmts', [])) < 2:
        return None
    parts = []
    for s_ in b['stmts']:
        if s_.get('k') != 'Expr' or not isinstance(s_.get('expr'), dict):
            return None
        e = s_['expr']
        attrs = [a for a in (e.get('attrs') or []) if a.get('name') == 'cfg']
        if len(attrs) != 1:
            return None
        e2 = dict(e)
        e2['attrs'] = [a for a in (e.get('attrs') or []) if a.get('name') != 'cfg']
        while e2.get('k') == 'Block' and len(e2['stmts']) == 1 and e2['stmts'][0]['k'] == 'Expr' and not e2['stmts'][0]['semi']:
            e2 = e2['stmts'][0]['expr']
        parts.append((attrs[0], e2))
    out = []
    for attr, e2 in parts:
        d = dict(st)
        d['init'] = e2
        d['attrs'] = [attr]
        out.append(d)
    return out


def _any_let(st):
    """N10: a `let v = <nested any>;` statement as a flag set in nested loops"""
    if st.get('k') != 'Local' or st.get('init') is None or st.get('else') is not None:
        return None
    p = st['pat']
    while p.get('k') == 'Type':
        p = p['pat']
    if p.get('k') != 'Ident' or p.get('mut') or p.get('by_ref'):
        return None
    l = st.get('l', 0)
    loops = []
    e = st['init']
    while isinstance(e, dict) and e.get('k') == 'MethodCall' and e.get('method') == 'any' and len(e.get('args', [])) == 1 \
            and e['args'][0].get('k') == 'Closure' and len(e['args'][0]['params']) == 1:
        clo = e['args'][0]
        loops.append((clo['params'][0], e['recv']))
        e = clo['body']
        while e.get('k') == 'Block' and len(e['stmts']) == 1 and e['stmts'][0]['k'] == 'Expr' and not e['stmts'][0]['semi']:
            e = e['stmts'][0]['expr']
    if not loops or e.get('k') == 'Block':
        return None
    name = p['name']
    assign = {'k': 'Expr', 'semi': True, 'l': l, 'expr': {'k': 'Assign', 'l_': _path(name, l), 'r_': {'k': 'Lit', 'lit': {'k': 'Bool', 'v': True}, 'l': l}, 'l': l}}
    body = {'k': 'Expr', 'semi': False, 'l': l, 'expr': {'k': 'If', 'cond': e, 'then': {'k': 'Block', 'stmts': [assign], 'l': l}, 'else': None, 'l': l}}
    for pat, it in reversed(loops):
        body = {'k': 'Expr', 'semi': False, 'l': l, 'expr': {'k': 'For', 'pat': pat, 'expr': it, 'label': None, 'l': l, 'desugared': 'any',
                                                           'body': {'k': 'Block', 'stmts': [body], 'l': l}}}
    decl = dict(st)
    decl['pat'] = {'k': 'Ident', 'name': name, 'by_ref': False, 'mut': True, 'sub': None, 'l': l}
    decl['init'] = {'k': 'Lit', 'lit': {'k': 'Bool', 'v': False}, 'l': l}
    body = dict(body)
    body['attrs'] = st.get('attrs', [])
    if isinstance(body['expr'], dict):
        body['expr'] = dict(body['expr'])
        body['expr']['attrs'] = st.get('attrs', [])
    return [decl, body]


def _walk(n, f):
    if isinstance(n, list):
        for x in n:
            _walk(x, f)
    elif isinstance(n, dict):
        f(n)
        for k, v in n.items():
            if not (isinstance(k, str) and k.startswith('_')):
                _walk(v, f)


def _rep_sites(tokens, out):
    """(token list, index of the rep token, hole name, separator or '', number of tokens to replace)"""
    for i, t in enumerate(tokens):
        if t['t'] == 'rep':
            ts = t['ts']
            name = sep = None
            if len(ts) == 1 and ts[0]['t'] == 'h':
                name, sep = ts[0]['s'], ''
            elif len(ts) == 2 and ts[0]['t'] == 'h' and ts[1]['t'] == 'p' and ts[1]['s'] in (',', ';'):
                name, sep = ts[0]['s'], ts[1]['s']
            if name is not None:
                j = i + 1
                n_ = 1
                if sep == '' and j < len(tokens) and tokens[j]['t'] == 'p' and tokens[j]['s'] in (',', ';') and j + 1 < len(tokens) \
                        and tokens[j + 1]['t'] == 'p' and tokens[j + 1]['s'] == '*':
                    sep = tokens[j]['s']
                    n_ = 3
                elif j < len(tokens) and tokens[j]['t'] == 'p' and tokens[j]['s'] == '*':
                    n_ = 2
                else:
                    name = None
                if name is not None:
                    out.append((tokens, i, name, sep, n_))
            _rep_sites(t['ts'], out)
        elif t['t'] == 'g':
            _rep_sites(t['ts'], out)


def _vec_pieces(fn_item):
    """N13 on one function"""
    blk = fn_item.get('block')
    if not isinstance(blk, dict):
        return
    sites = []

    def tm(n):
        if n.get('k') == 'Macro' and isinstance(n.get('mac'), dict) and isinstance(n['mac'].get('tmpl'), list):
            _rep_sites(n['mac']['tmpl'], sites)
    _walk(blk, tm)
    if not sites:
        return
    seps = {}
    for _, _, name, sep, _ in sites:
        seps.setdefault(name, set()).add(sep)
    for name, ss in seps.items():
        if len(ss) != 1:
            continue
        sep = next(iter(ss))
        locals_, uses, pushes, other = [], [], [], []

        def vis(n):
            if n.get('k') == 'Local':
                p_ = n['pat']
                while p_.get('k') == 'Type':
                    p_ = p_['pat']
                if p_.get('k') == 'Ident' and p_.get('name') == name:
                    locals_.append(n)
            if n.get('k') == 'MethodCall' and n['recv'].get('k') == 'Path' and n['recv']['path']['s'] == name:
                if n['method'] == 'push' and len(n['args']) == 1:
                    pushes.append(n)
                elif n['method'] not in ('is_empty', 'len'):
                    other.append(n)
        _walk(blk, vis)
        okinit = bool(locals_)
        for l_ in locals_:
            i_ = l_.get('init')
            t_ = ''
            if isinstance(i_, dict) and i_.get('k') == 'Call' and i_['func'].get('k') == 'Path':
                t_ = i_['func']['path']['s']
            elif isinstance(i_, dict) and i_.get('k') == 'Macro' and i_['mac'].get('name') == 'vec' and not (i_['mac'].get('text') or '').strip() and not i_['mac'].get('args'):
                t_ = 'Vec::new'
            if t_ not in ('Vec::new', 'Vec::with_capacity'):
                okinit = False
        # every other mention of the name must be one of the recognised uses
        count = [0]

        def cnt(n):
            if n.get('k') == 'Path' and isinstance(n.get('path'), dict) and n['path'].get('s') == name:
                count[0] += 1
        _walk(blk, cnt)
        n_is_empty = [0]

        def cie(n):
            if n.get('k') == 'MethodCall' and n['recv'].get('k') == 'Path' and n['recv']['path']['s'] == name and n['method'] in ('is_empty',):
                n_is_empty[0] += 1
        _walk(blk, cie)
        if not okinit or other or count[0] != len(pushes) + n_is_empty[0]:
            continue
        # rewrite
        for l_ in locals_:
            ln = l_.get('l', 0)
            l_['init'] = {'k': 'Call', 'l': ln, 'args': [], 'func': _path('proc_macro2::TokenStream::new', ln)}
            l_['init']['func']['qself'] = None
            l_['ty'] = None
            l_['n13'] = True
        for pc in pushes:
            a = pc['args'][0]
            pc['method'] = 'extend'
            if sep:
                if a.get('k') == 'Macro' and isinstance(a['mac'].get('tmpl'), list):
                    a['mac']['tmpl'] = list(a['mac']['tmpl']) + [{'t': 'p', 's': sep, 'j': False, 'l': a.get('l', 0)}]
                else:
                    pc['n13_sep'] = sep
        for toks, i, nm, sp, n_ in sorted([x for x in sites if x[2] == name], key=lambda x: -x[1]):
            toks[i:i + n_] = [{'t': 'h', 's': name, 'l': toks[i].get('l', 0)}]


def _split_n13(stmts):
    """`v.extend(X)` with a pending separator (X is not a literal template): `v.extend(X); v.extend(quote!(sep));`"""
    out = []
    for st in stmts:
        out.append(st)
        e = st.get('expr') if st.get('k') == 'Expr' else None
        if isinstance(e, dict) and e.get('k') == 'MethodCall' and e.get('n13_sep'):
            sep = e.pop('n13_sep')
            l = e.get('l', 0)
            out.append({'k': 'Expr', 'l': l, 'semi': True, 'expr': {'k': 'MethodCall', 'l': l, 'ml': l, 'method': 'extend', 'turbofish': None,
                        'recv': dict(e['recv']),
                        'args': [{'k': 'Macro', 'l': l, 'mac': {'delim': '(', 'l': l, 'name': 'quote', 'tmpl': [{'t': 'p', 's': sep, 'j': False, 'l': l}]}}]}})
    return out


def _match_as_ifs(st):
    """N15"""
    if st.get('k') != 'Expr' or not isinstance(st.get('expr'), dict) or st['expr'].get('k') != 'Match':
        return None
    m = st['expr']
    sc = m['expr']
    if sc.get('k') != 'Path' or len(sc['path']['segs']) != 1 or m.get('attrs'):
        return None
    arms = m['arms']
    if len(arms) < 2:
        return None
    last = arms[-1]
    lb = last['body']
    empty_last = last['pat'].get('k') == 'Wild' and last.get('guard') is None and not last.get('attrs') and \
        ((lb.get('k') == 'Block' and not lb.get('stmts')) or (lb.get('k') == 'Tuple' and not lb.get('elems')))
    if not empty_last:
        return None
    out = []
    for a in arms[:-1]:
        p = a['pat']
        if p.get('k') != 'Path' or len(p['path']['segs']) < 2 or a.get('guard') is not None:
            return None
        b = a['body']
        if b.get('k') != 'Block':
            b = {'k': 'Block', 'l': b.get('l', 0), 'stmts': [{'k': 'Expr', 'expr': b, 'semi': True, 'l': b.get('l', 0)}]}
        cond = {'k': 'Binary', 'l': a.get('l', 0), 'op': '==', 'l_': dict(sc), 'r_': {'k': 'Path', 'l': p.get('l', 0), 'path': p['path'], 'qself': None}}
        iff = {'k': 'If', 'l': a.get('l', 0), 'cond': cond, 'then': b, 'else': None, 'desugared': 'match-on-unit-variants'}
        attrs = [x for x in (a.get('attrs') or []) if x.get('name') == 'cfg']
        if attrs:
            iff['attrs'] = attrs
        out.append({'k': 'Expr', 'expr': iff, 'semi': False, 'l': a.get('l', 0)})
    return out


def _map_over(node, fn):
    if isinstance(node, list):
        return [_map_over(x, fn) for x in node]
    if not isinstance(node, dict):
        return node
    r = fn(node)
    if r is not None:
        return r
    return {k: (_map_over(v, fn) if not (isinstance(k, str) and k.startswith('_')) else v) for k, v in node.items()}


def _uses(node, name):
    c = [0]

    def f(n):
        if n.get('k') == 'Path' and isinstance(n.get('path'), dict) and n['path'].get('s') == name and 'qself' in n:
            c[0] += 1
    _walk(node, f)
    return c[0]


def _entry_match(st):
    """N18"""
    if st.get('k') != 'Expr' or not isinstance(st.get('expr'), dict) or st['expr'].get('k') != 'Match':
        return None
    m = st['expr']
    sc = m['expr']
    if sc.get('k') != 'MethodCall' or sc.get('method') != 'entry' or len(sc.get('args', [])) != 1 or len(m['arms']) != 2:
        return None
    M, K = sc['recv'], sc['args'][0]
    if K.get('k') != 'Path' or M.get('k') != 'Path':
        return None
    occ = vac = None
    for a in m['arms']:
        p = a['pat']
        if p.get('k') != 'TupleStruct' or len(p.get('elems', [])) != 1 or a.get('guard') is not None or a.get('attrs'):
            return None
        last = p['path']['segs'][-1]['id']
        b = p['elems'][0]
        bname = b.get('name') if b.get('k') == 'Ident' else (None if b.get('k') == 'Wild' else False)
        if bname is False:
            return None
        if last == 'Occupied':
            occ = (a, bname)
        elif last == 'Vacant':
            vac = (a, bname)
    if occ is None or vac is None:
        return None
    l = st.get('l', 0)

    def as_block(b):
        if b.get('k') == 'Block':
            return b
        return {'k': 'Block', 'l': b.get('l', l), 'stmts': [{'k': 'Expr', 'expr': b, 'semi': True, 'l': b.get('l', l)}]}
    A, on = as_block(occ[0]['body']), occ[1]
    B, vn = as_block(vac[0]['body']), vac[1]
    keyref = {'k': 'Ref', 'l': l, 'mut': False, 'expr': dict(K)}
    # vacant side: every use of v is `v.insert(V)`
    if vn is not None:
        bad = [0]
        total = _uses(B, vn)
        hits = [0]

        def fv(n):
            if n.get('k') == 'MethodCall' and n['recv'].get('k') == 'Path' and n['recv']['path'].get('s') == vn:
                if n['method'] == 'insert' and len(n['args']) == 1:
                    hits[0] += 1
                    return {'k': 'MethodCall', 'l': n.get('l', l), 'ml': n.get('l', l), 'method': 'insert', 'turbofish': None, 'recv': dict(M), 'args': [dict(K), n['args'][0]]}
                bad[0] += 1
            return None
        B2 = _map_over(B, fv)
        if bad[0] or hits[0] != total:
            return None
        B = B2
    if on is None or _uses(A, on) == 0:
        cond = {'k': 'MethodCall', 'l': l, 'ml': l, 'method': 'contains_key', 'turbofish': None, 'recv': dict(M), 'args': [keyref]}
    else:
        okA = [True]

        def fo(n):
            if n.get('k') == 'MethodCall' and n['recv'].get('k') == 'Path' and n['recv']['path'].get('s') == on:
                if n['method'] in ('into_mut', 'get_mut', 'get') and not n['args']:
                    return dict(n['recv'])
                okA[0] = False
            return None
        A = _map_over(A, fo)
        if not okA[0]:
            return None
        pat = {'k': 'TupleStruct', 'l': l, 'qself': False, 'path': _ppath('Some', l),
               'elems': [{'k': 'Ident', 'name': on, 'by_ref': False, 'mut': False, 'sub': None, 'l': l}]}
        cond = {'k': 'Let', 'l': l, 'pat': pat,
                'expr': {'k': 'MethodCall', 'l': l, 'ml': l, 'method': 'get_mut', 'turbofish': None, 'recv': dict(M), 'args': [keyref]}}
    iff = {'k': 'If', 'l': l, 'cond': cond, 'then': A, 'else': B, 'desugared': 'entry-api'}
    return [{'k': 'Expr', 'expr': iff, 'semi': False, 'l': l}]


def _pat_names(p, out):
    if isinstance(p, dict):
        if p.get('k') == 'Ident' and 'by_ref' in p:
            out.append(p['name'])
        elif p.get('k') == 'Wild':
            out.append(None)
        elif p.get('k') == 'Tuple':
            for e in p.get('elems', []):
                _pat_names(e, out)
        elif p.get('k') in ('Ref', 'Type', 'Reference'):
            _pat_names(p.get('pat'), out)
        else:
            out.append(False)


def _unique_filter(stmts):
    """N19 over the statement list of a block that is the then-branch of `if V.is_none()`"""
    for i in range(len(stmts) - 1):
        a, b = stmts[i], stmts[i + 1]
        if a.get('k') != 'Local' or not isinstance(a.get('init'), dict) or a['pat'].get('k') != 'Ident' or not a['pat'].get('mut'):
            continue
        it = a['pat']['name']
        e = a['init']
        if e.get('k') != 'MethodCall' or e.get('method') != 'filter' or len(e['args']) != 1 or e['args'][0].get('k') != 'Closure' or len(e['args'][0]['params']) != 1:
            continue
        if b.get('k') != 'Expr' or not isinstance(b.get('expr'), dict) or b['expr'].get('k') != 'If' or b['expr'].get('else') is not None:
            continue
        iff = b['expr']
        c = iff['cond']

        def is_next(x):
            return isinstance(x, dict) and x.get('k') == 'MethodCall' and x.get('method') == 'next' and not x['args'] and x['recv'].get('k') == 'Path' and x['recv']['path'].get('s') == it
        if c.get('k') != 'Let' or not is_next(c['expr']) or c['pat'].get('k') != 'TupleStruct' or c['pat']['path']['s'] != 'Some' or len(c['pat']['elems']) != 1:
            continue
        inner = iff['then'].get('stmts', [])
        if len(inner) != 1 or inner[0].get('k') != 'Expr' or inner[0]['expr'].get('k') != 'If' or inner[0]['expr'].get('else') is not None:
            continue
        iff2 = inner[0]['expr']
        c2 = iff2['cond']
        if not (c2.get('k') == 'MethodCall' and c2.get('method') == 'is_none' and is_next(c2['recv'])):
            continue
        body = iff2['then'].get('stmts', [])
        if len(body) != 1 or body[0].get('k') != 'Expr' or body[0]['expr'].get('k') != 'Assign':
            continue
        asg = body[0]['expr']
        V = asg['l_']
        if V.get('k') != 'Path' or not (asg['r_'].get('k') == 'Call' and asg['r_']['func'].get('k') == 'Path' and asg['r_']['func']['path']['s'] == 'Some'):
            continue
        if _uses(stmts[i + 2:], it) or _uses(b, it) != 2:
            continue
        clo = e['args'][0]
        pn, qn = [], []
        _pat_names(c['pat']['elems'][0], pn)
        _pat_names(clo['params'][0], qn)
        if len(pn) != len(qn) or False in pn or False in qn:
            continue
        cond = clo['body']
        while cond.get('k') == 'Block' and len(cond.get('stmts', [])) == 1 and cond['stmts'][0].get('k') == 'Expr' and not cond['stmts'][0].get('semi'):
            cond = cond['stmts'][0]['expr']
        l = a.get('l', 0)
        pat = c['pat']['elems'][0]
        # closure names -> loop pattern names; a closure name whose loop counterpart is `_` needs a name in the loop pattern
        import copy as _c
        pat = _c.deepcopy(pat)
        ren = {}
        wild_fix = []
        for pnm, qnm in zip(pn, qn):
            if qnm is None:
                continue
            if pnm is None:
                wild_fix.append(qnm)
            elif pnm != qnm:
                ren[qnm] = pnm
        if wild_fix:
            continue
        for o_, n_ in ren.items():
            cond = _rename_ident(cond, o_, n_)
        vname = V['path']['s']
        v_is_some = {'k': 'MethodCall', 'l': l, 'ml': l, 'method': 'is_some', 'turbofish': None, 'recv': dict(V), 'args': []}
        reset = {'k': 'Expr', 'l': l, 'semi': True, 'expr': {'k': 'Assign', 'l': l, 'l_': dict(V), 'r_': _path('None', l)}}
        reset['expr']['r_']['qself'] = None
        brk = {'k': 'Expr', 'l': l, 'semi': True, 'expr': {'k': 'Break', 'l': l, 'expr': None, 'label': None}}
        inner_if = {'k': 'Expr', 'l': l, 'semi': False, 'expr': {'k': 'If', 'l': l, 'cond': v_is_some, 'else': None,
                                                               'then': {'k': 'Block', 'l': l, 'stmts': [reset, brk]}}}
        match_if = {'k': 'Expr', 'l': l, 'semi': False, 'expr': {'k': 'If', 'l': l, 'cond': cond, 'else': None,
                                                               'then': {'k': 'Block', 'l': l, 'stmts': [inner_if, body[0]]}}}
        loop = {'k': 'Expr', 'l': l, 'semi': False, 'expr': {'k': 'For', 'l': l, 'pat': pat, 'expr': e['recv'],
                                                           'body': {'k': 'Block', 'l': l, 'stmts': [match_if]}, 'desugared': 'unique-filter'}}
        return stmts[:i] + [loop] + stmts[i + 2:], vname
    return None


def _fnptr_select(stmts):
    """N20 over one statement list"""
    for i, a in enumerate(stmts):
        if a.get('k') != 'Local' or not isinstance(a.get('init'), dict) or a['init'].get('k') != 'Match' or a.get('else') is not None:
            continue
        p = a['pat']
        while p.get('k') == 'Type':
            p = p['pat']
        if p.get('k') != 'Ident' or p.get('mut') or p.get('by_ref'):
            continue
        name = p['name']
        m = a['init']
        if not m['arms'] or any(arm.get('guard') is not None or arm['body'].get('k') != 'Path' or len(arm['body']['path']['segs']) < 2 for arm in m['arms']):
            continue
        rest = stmts[i + 1:]
        if _uses(rest, name) != 1:
            continue
        calls = []

        def f(n):
            if n.get('k') == 'Call' and isinstance(n.get('func'), dict) and n['func'].get('k') == 'Path' and n['func']['path'].get('s') == name:
                calls.append(n)
        _walk(rest, f)
        if len(calls) != 1:
            continue
        c = calls[0]
        import copy as _c
        arms = []
        for arm in m['arms']:
            arm2 = dict(arm)
            arm2['body'] = {'k': 'Call', 'l': arm['body'].get('l', 0), 'func': arm['body'], 'args': _c.deepcopy(c['args'])}
            arms.append(arm2)
        new = {'k': 'Match', 'l': m.get('l', 0), 'expr': m['expr'], 'arms': arms, 'desugared': 'fn-pointer-select'}
        keep = {k_: v_ for k_, v_ in c.items() if isinstance(k_, str) and k_.startswith('_')}
        c.clear()
        c.update(new)
        c.update(keep)
        return stmts[:i] + rest
    return None


def _data_iflet_chain(n):
    """N21"""
    arms = []
    cur = n
    scrut = None
    while isinstance(cur, dict) and cur.get('k') == 'If' and isinstance(cur.get('cond'), dict) and cur['cond'].get('k') == 'Let':
        c = cur['cond']
        e = c['expr']
        txt = None
        x = e
        while isinstance(x, dict) and x.get('k') == 'Ref':
            x = x['expr']
        if isinstance(x, dict) and x.get('k') == 'Field' and x.get('member') == 'data' and x['base'].get('k') == 'Path' and x['base']['path'].get('s') == 'ast':
            txt = 'ast.data'
        p = c['pat']
        if txt is None or p.get('k') != 'TupleStruct' or p['path']['s'] not in ('Data::Struct', 'Data::Enum', 'Data::Union'):
            return None
        if scrut is None:
            scrut = e
        arms.append((p, cur['then'], cur.get('l', 0)))
        cur = cur.get('else')
        if isinstance(cur, dict) and cur.get('k') == 'Block' and len(cur.get('stmts', [])) == 1 and cur['stmts'][0].get('k') == 'Expr' \
                and not cur['stmts'][0].get('semi') and isinstance(cur['stmts'][0]['expr'], dict) and cur['stmts'][0]['expr'].get('k') == 'If':
            cur = cur['stmts'][0]['expr']
    if len(arms) < 2 or cur is None or (isinstance(cur, dict) and cur.get('k') == 'If'):
        return None
    seen = [a[0]['path']['s'].split('::')[1] for a in arms]
    missing = [v for v in ('Struct', 'Enum', 'Union') if v not in seen]
    if len(set(seen)) != len(seen) or len(missing) != 1:
        return None
    l = n.get('l', 0)
    out = [{'pat': a[0], 'guard': None, 'body': a[1], 'attrs': [], 'l': a[2]} for a in arms]
    out.append({'pat': {'k': 'TupleStruct', 'l': l, 'qself': False, 'path': _ppath('Data::' + missing[0], l), 'elems': [{'k': 'Wild', 'l': l}]},
                'guard': None, 'body': cur, 'attrs': [], 'l': l})
    return {'k': 'Match', 'l': l, 'expr': scrut, 'arms': out, 'desugared': 'data-iflet-chain'}


def _strip_ref_expr(e):
    while isinstance(e, dict) and e.get('k') in ('Ref', 'Paren'):
        e = e['expr']
    return e


def _same_expr(a, b):
    from .syn import es as _es
    return _es(_strip_ref_expr(a)).replace(' ', '') == _es(_strip_ref_expr(b)).replace(' ', '')


def _split_or_arms(m):
    """N22"""
    from .syn import pat_s as _ps
    import copy as _c
    changed = False
    arms = []
    for a in m['arms']:
        p = a['pat']
        if p.get('k') != 'Or' or a.get('guard') is not None:
            arms.append(a)
            continue
        inner = []

        def find(n):
            if n.get('k') == 'Match' and _same_expr(n['expr'], m['expr']):
                inner.append(n)
        _walk(a['body'], find)
        if not inner:
            arms.append(a)
            continue
        new_arms = []
        ok = True
        for case in p['cases']:
            ct = _ps(case)

            def pick(n, ct=ct):
                if n.get('k') == 'Match' and _same_expr(n['expr'], m['expr']):
                    for ia in n['arms']:
                        if ia.get('guard') is not None:
                            return None
                        pt = _ps(ia['pat'])
                        if pt == ct or ia['pat'].get('k') == 'Wild':
                            return _c.deepcopy(ia['body'])
                        if ia['pat'].get('k') == 'Or' and ct in [_ps(x) for x in ia['pat']['cases']]:
                            return _c.deepcopy(ia['body'])
                    return {'k': 'Path', 'l': 0, 'qself': None, 'path': {'s': '__n22_unresolved', 'segs': [{'id': '__n22_unresolved'}], 'global': False}}
                return None
            body = _map_over(_c.deepcopy(a['body']), pick)
            if _uses(body, '__n22_unresolved'):
                ok = False
                break
            a2 = dict(a)
            a2['pat'] = case
            a2['body'] = body
            new_arms.append(a2)
        if ok:
            arms += new_arms
            changed = True
        else:
            arms.append(a)
    if changed:
        m = dict(m)
        m['arms'] = arms
    return m


def _ctor(e):
    """(path text, [args]) of a constructor expression `K` / `K(a, b)` / `mod::K(a)`; else None"""
    if isinstance(e, dict) and e.get('k') == 'Block' and len(e.get('stmts', [])) == 1 and e['stmts'][0].get('k') == 'Expr' and not e['stmts'][0].get('semi'):
        return _ctor(e['stmts'][0]['expr'])
    if isinstance(e, dict) and e.get('k') == 'Path' and e['path']['segs'][-1]['id'][:1].isupper() and len(e['path']['segs']) >= 2:
        return e['path']['s'], []
    if isinstance(e, dict) and e.get('k') == 'Call' and e['func'].get('k') == 'Path' and e['func']['path']['segs'][-1]['id'][:1].isupper() \
            and len(e['func']['path']['segs']) >= 2:
        return e['func']['path']['s'], e['args']
    return None


def _classify_dispatch(stmts):
    """N24 over one statement list"""
    import copy as _c
    for i in range(len(stmts) - 1):
        a, b = stmts[i], stmts[i + 1]
        if a.get('k') != 'Local' or not isinstance(a.get('init'), dict) or a['init'].get('k') != 'Match' or a.get('else') is not None:
            continue
        p = a['pat']
        while p.get('k') == 'Type':
            p = p['pat']
        if p.get('k') != 'Ident' or p.get('mut'):
            continue
        v = p['name']
        if b.get('k') != 'Expr' or not isinstance(b.get('expr'), dict) or b['expr'].get('k') != 'Match':
            continue
        m1, m2 = a['init'], b['expr']
        if m2['expr'].get('k') != 'Path' or m2['expr']['path'].get('s') != v or _uses(stmts[i + 2:], v) or _uses(m2['arms'], v):
            continue
        if any(arm2.get('guard') is not None for arm2 in m2['arms']):
            continue

        def dispatch(val, l):
            """the body of m2 selected by the constructor expression `val` (through `if`s), or None"""
            while isinstance(val, dict) and val.get('k') == 'Block' and len(val.get('stmts', [])) == 1 and val['stmts'][0].get('k') == 'Expr' \
                    and not val['stmts'][0].get('semi'):
                val = val['stmts'][0]['expr']
            if isinstance(val, dict) and val.get('k') == 'If' and val.get('else') is not None:
                t_, e_ = dispatch(val['then'], l), dispatch(val['else'], l)
                if t_ is None or e_ is None:
                    return None

                def blk(x):
                    return x if x.get('k') == 'Block' else {'k': 'Block', 'l': l, 'stmts': [{'k': 'Expr', 'expr': x, 'semi': False, 'l': l}]}
                return dict(val, then=blk(t_), **{'else': blk(e_)})
            c = _ctor(val)
            if c is None:
                return None
            cpath, cargs = c
            for arm2 in m2['arms']:
                p2 = arm2['pat']
                binds = None
                if p2.get('k') == 'Wild':
                    binds = []
                else:
                    pp = p2.get('path', {}).get('s') if p2.get('k') in ('Path', 'TupleStruct') else None
                    if pp is not None and pp.split('::')[-1] == cpath.split('::')[-1]:
                        elems = p2.get('elems', []) if p2.get('k') == 'TupleStruct' else []
                        if len(elems) != len(cargs) or any(e2.get('k') not in ('Ident', 'Wild') or e2.get('sub') for e2 in elems):
                            return None
                        binds = [(e2, x) for e2, x in zip(elems, cargs) if e2.get('k') == 'Ident']
                if binds is None:
                    continue
                lets = [{'k': 'Local', 'l': l, 'attrs': [], 'else': None, 'ty': None, 'pat': _c.deepcopy(e2), 'init': x} for e2, x in binds]
                body = _c.deepcopy(arm2['body'])
                if lets:
                    if body.get('k') == 'Block':
                        body = dict(body, stmts=lets + body['stmts'])
                    else:
                        body = {'k': 'Block', 'l': l, 'stmts': lets + [{'k': 'Expr', 'expr': body, 'semi': False, 'l': l}]}
                return body
            return None
        arms = []
        ok = True
        for arm in m1['arms']:
            body = dispatch(arm['body'], arm.get('l', 0))
            if body is None:
                ok = False
                break
            arm_new = dict(arm)
            arm_new['body'] = body
            arms.append(arm_new)
        if not ok:
            continue
        new = {'k': 'Expr', 'l': b.get('l', 0), 'semi': b.get('semi', False),
               'expr': {'k': 'Match', 'l': m1.get('l', 0), 'expr': m1['expr'], 'arms': arms, 'desugared': 'classify-dispatch'}}
        return stmts[:i] + [new] + stmts[i + 2:]
    return None


def _merge_guard_arms(m):
    """N25"""
    from .syn import pat_s as _ps
    arms = list(m['arms'])
    changed = False
    i = 0
    while i + 1 < len(arms):
        a, b = arms[i], arms[i + 1]
        if a.get('guard') is not None and b.get('guard') is None and not a.get('attrs') and not b.get('attrs') and _ps(a['pat']) == _ps(b['pat']):
            l = a.get('l', 0)

            def blk(x):
                return x if x.get('k') == 'Block' else {'k': 'Block', 'l': l, 'stmts': [{'k': 'Expr', 'expr': x, 'semi': False, 'l': l}]}
            body = {'k': 'If', 'l': l, 'cond': a['guard'], 'then': blk(a['body']), 'else': blk(b['body']), 'desugared': 'guard-fallthrough'}
            merged = dict(b)
            merged['pat'] = a['pat']
            merged['body'] = body
            arms[i:i + 2] = [merged]
            changed = True
            continue
        i += 1
    if changed:
        m = dict(m)
        m['arms'] = arms
    return m


def _let_into_next_iflet(stmts):
    """N26 `let v = E; if let P = v { .. }` (v immutable, used nowhere else) -> `if let P = E { .. }`: E is evaluated at the same point"""
    for i in range(len(stmts) - 1):
        a, b = stmts[i], stmts[i + 1]
        if a.get('k') != 'Local' or not isinstance(a.get('init'), dict) or a.get('else') is not None or a.get('attrs'):
            continue
        p = a['pat']
        while p.get('k') == 'Type':
            p = p['pat']
        if p.get('k') != 'Ident' or p.get('mut') or p.get('by_ref') or p.get('sub'):
            continue
        name = p['name']
        if b.get('k') != 'Expr' or not isinstance(b.get('expr'), dict) or b['expr'].get('k') != 'If':
            continue
        c = b['expr'].get('cond')
        if not isinstance(c, dict) or c.get('k') != 'Let' or c['expr'].get('k') != 'Path' or c['expr']['path'].get('s') != name:
            continue
        if a['init'].get('k') != 'MethodCall' or a['init'].get('method') != 'find':
            continue
        if _uses(stmts[i + 1:], name) != 1:
            continue
        import copy as _c
        iff = _c.copy(b['expr'])
        iff['cond'] = dict(c, expr=a['init'])
        nb = dict(b, expr=norm(iff))
        return stmts[:i] + [nb] + stmts[i + 2:]
    return None


def _early_return_to_else(block):
    """N28 at the top level of a function body: `if C { return A; } REST.. TAIL` -> `if C { A } else { REST.. TAIL }` (the function's
    value either way); only for small helpers (the rest is at most three statements and contains no further `return`)"""
    st = block.get('stmts') or []
    if len(st) < 2 or st[-1].get('k') != 'Expr' or st[-1].get('semi'):
        return
    for i in range(len(st) - 2, -1, -1):
        a = st[i]
        if a.get('k') != 'Expr' or not isinstance(a.get('expr'), dict) or a['expr'].get('k') != 'If' or a['expr'].get('else') is not None:
            continue
        th = a['expr']['then'].get('stmts') or []
        if len(th) != 1 or th[0].get('k') != 'Expr' or th[0]['expr'].get('k') != 'Return' or not isinstance(th[0]['expr'].get('expr'), dict):
            continue
        rest = st[i + 1:]
        if len(rest) > 4:
            continue
        has_ret = []
        _walk(rest, lambda x: has_ret.append(1) if x.get('k') in ('Return', 'Try') else None)
        if has_ret:
            continue
        l = a.get('l', 0)
        iff = dict(a['expr'])
        iff['then'] = {'k': 'Block', 'l': l, 'stmts': [{'k': 'Expr', 'expr': th[0]['expr']['expr'], 'semi': False, 'l': l}]}
        iff['else'] = {'k': 'Block', 'l': l, 'stmts': rest}
        iff['desugared'] = 'early-return'
        block['stmts'] = st[:i] + [{'k': 'Expr', 'expr': iff, 'semi': False, 'l': l}]
        return


def _split_tuple_let(st):
    """N29 `let (a, b) = if C { (X1, X2) } else { (Y1, Y2) };` (every branch is just a tuple) ->
    `let a = if C { X1 } else { Y1 }; let b = if C { X2 } else { Y2 };` — C is a pure test of values (no call), so evaluating it twice
    changes nothing"""
    if st.get('k') != 'Local' or st.get('else') is not None or st.get('attrs') or not isinstance(st.get('init'), dict):
        return None
    p = st['pat']
    while p.get('k') == 'Type':
        p = p['pat']
    e = st['init']
    if p.get('k') != 'Tuple' or e.get('k') != 'If' or e.get('else') is None or e['cond'].get('k') == 'Let':
        return None
    n_ = len(p['elems'])
    if any(x.get('k') not in ('Ident', 'Wild') or x.get('sub') for x in p['elems']):
        return None
    impure = []
    _walk(e['cond'], lambda x: impure.append(1) if x.get('k') in ('Call', 'MethodCall', 'Macro', 'Try') and not (x.get('k') == 'MethodCall' and x.get('method') in ('is_none', 'is_some', 'is_empty')) else None)
    if impure:
        return None

    def tup(b):
        while isinstance(b, dict) and b.get('k') == 'Block' and len(b.get('stmts') or []) == 1 and b['stmts'][0]['k'] == 'Expr' and not b['stmts'][0]['semi']:
            b = b['stmts'][0]['expr']
        return b if isinstance(b, dict) and b.get('k') == 'Tuple' and len(b['elems']) == n_ else None
    a, b = tup(e['then']), tup(e['else'])
    if a is None or b is None:
        return None
    import copy as _c
    l = st.get('l', 0)
    out = []
    for i in range(n_):
        if p['elems'][i].get('k') == 'Wild':
            continue
        blk = lambda x: {'k': 'Block', 'l': l, 'stmts': [{'k': 'Expr', 'expr': x, 'semi': False, 'l': l}]}
        iff = {'k': 'If', 'l': l, 'cond': _c.deepcopy(e['cond']), 'then': blk(a['elems'][i]), 'else': blk(b['elems'][i]), 'desugared': 'tuple-let'}
        out.append({'k': 'Local', 'l': l, 'attrs': [], 'else': None, 'ty': None, 'pat': p['elems'][i], 'init': iff})
    return out


def _try_for_each(n):
    """N30 `I.try_for_each(|p| BODY)?;` as a statement -> `for p in I { BODY' }` where the closure's result leaves become `Ok(())` -> nothing,
    `Err(e)` -> `return Err(e)` (a `?` inside the closure leaves it with the error, which the outer `?` returns: the same as in the loop)"""
    if n.get('k') != 'Expr' or not isinstance(n.get('expr'), dict) or n['expr'].get('k') != 'Try':
        return None
    c = n['expr']['expr']
    if not (isinstance(c, dict) and c.get('k') == 'MethodCall' and c.get('method') == 'try_for_each' and len(c.get('args', [])) == 1
            and c['args'][0].get('k') == 'Closure' and len(c['args'][0].get('params', [])) == 1):
        return None
    clo = c['args'][0]
    bad = []
    _walk(clo['body'], lambda x: bad.append(1) if x.get('k') == 'Return' else None)
    if bad:
        return None
    l = n.get('l', 0)

    def leaves(e):
        k = e.get('k')
        if k == 'Call' and e['func'].get('k') == 'Path' and len(e['args']) == 1:
            fn_ = e['func']['path']['s']
            if fn_ == 'Ok' and e['args'][0].get('k') == 'Tuple' and not e['args'][0].get('elems'):
                return {'k': 'Block', 'l': l, 'stmts': []}
            if fn_ == 'Err':
                return {'k': 'Block', 'l': l, 'stmts': [{'k': 'Expr', 'expr': {'k': 'Return', 'l': l, 'expr': e}, 'semi': True, 'l': l}]}
            return None
        if k == 'If' and e.get('else') is not None:
            t, f = leaves(e['then']), leaves(e['else'])
            if t is None or f is None:
                return None
            return {'k': 'Block', 'l': l, 'stmts': [{'k': 'Expr', 'expr': dict(e, then=t, **{'else': f}), 'semi': False, 'l': l}]}
        if k == 'Block':
            st = e.get('stmts') or []
            if not st or st[-1].get('k') != 'Expr' or st[-1].get('semi'):
                return None
            v = leaves(st[-1]['expr'])
            if v is None:
                return None
            return dict(e, stmts=st[:-1] + v['stmts'])
        return None
    body = leaves(clo['body'] if clo['body'].get('k') == 'Block' else {'k': 'Block', 'l': l, 'stmts': [{'k': 'Expr', 'expr': clo['body'], 'semi': False, 'l': l}]})
    if body is None:
        return None
    it = c['recv']
    if it.get('k') == 'MethodCall' and it.get('method') == 'into_iter' and not it.get('args'):
        it = it['recv']
    loop = {'k': 'For', 'pat': clo['params'][0], 'expr': it, 'label': None, 'l': l, 'desugared': 'try_for_each', 'body': body}
    return [dict(n, expr=norm(loop), semi=False)]


def _bool_tuple_match(n):
    """N31 `match (a, b) { (true, true) => A, (true, false) => B, (false, true) => C, (false, false) => D }` (literal patterns, `_` allowed,
    first matching arm wins) -> nested `if a { if b { A } else { B } } else { .. }`"""
    sc = n.get('expr')
    if not (isinstance(sc, dict) and sc.get('k') == 'Tuple' and 1 < len(sc['elems']) <= 3):
        return None
    k_ = len(sc['elems'])
    rows = []
    for a in n.get('arms', []):
        if a.get('guard') is not None:
            return None
        p = a['pat']
        if p.get('k') == 'Wild':
            rows.append(([None] * k_, a['body']))
            continue
        if p.get('k') != 'Tuple' or len(p['elems']) != k_:
            return None
        r = []
        for e in p['elems']:
            if e.get('k') == 'Wild':
                r.append(None)
            elif e.get('k') == 'Lit' and isinstance(e.get('lit'), dict) and e['lit'].get('k') == 'Bool':
                r.append(bool(e['lit'].get('v')))
            else:
                return None
        rows.append((r, a['body']))
    l = n.get('l', 0)

    def blk(x):
        return x if x.get('k') == 'Block' else {'k': 'Block', 'l': l, 'stmts': [{'k': 'Expr', 'expr': x, 'semi': False, 'l': l}]}

    def build(i, assign):
        if i == k_:
            for r, body in rows:
                if all(rv is None or rv == av for rv, av in zip(r, assign)):
                    return blk(body)
            return None
        t, f = build(i + 1, assign + [True]), build(i + 1, assign + [False])
        if t is None or f is None:
            return None
        return {'k': 'Block', 'l': l, 'stmts': [{'k': 'Expr', 'semi': False, 'l': l,
                                                 'expr': {'k': 'If', 'l': l, 'cond': sc['elems'][i], 'then': t, 'else': f, 'desugared': 'bool-tuple-match'}}]}
    r = build(0, [])
    if r is None:
        return None
    return r['stmts'][0]['expr']


def _let_into_next_for(stmts):
    """N27a `let it = I.filter(..); for P in it { .. }` (it immutable, used nowhere else) -> `for P in I.filter(..) { .. }`"""
    for i in range(len(stmts) - 1):
        a, b = stmts[i], stmts[i + 1]
        if a.get('k') != 'Local' or not isinstance(a.get('init'), dict) or a.get('else') is not None or a.get('attrs'):
            continue
        p = a['pat']
        while p.get('k') == 'Type':
            p = p['pat']
        if p.get('k') != 'Ident' or p.get('mut') or p.get('by_ref') or p.get('sub'):
            continue
        name = p['name']
        if b.get('k') != 'Expr' or not isinstance(b.get('expr'), dict) or b['expr'].get('k') != 'For':
            continue
        it = b['expr'].get('expr')
        if not isinstance(it, dict) or it.get('k') != 'Path' or it['path'].get('s') != name:
            continue
        if a['init'].get('k') != 'MethodCall' or a['init'].get('method') != 'filter':
            continue
        if _uses(stmts[i + 1:], name) != 1:
            continue
        nb = dict(b, expr=norm(dict(b['expr'], expr=a['init'])))
        return stmts[:i] + [nb] + stmts[i + 2:]
    return None


def _filter_loop(n):
    """N27b `for x in I.filter(|p| C) { B }` -> `for x in I { if C[p := x] { B } }` (filter is lazy and keeps the order)"""
    it = n.get('expr')
    if not (isinstance(it, dict) and it.get('k') == 'MethodCall' and it.get('method') == 'filter' and len(it.get('args', [])) == 1
            and it['args'][0].get('k') == 'Closure' and len(it['args'][0]['params']) == 1):
        return None
    def _strip(p_):
        while isinstance(p_, dict) and p_.get('k') in ('Ref', 'Type'):
            p_ = p_['pat']
        return p_
    q = _strip(it['args'][0]['params'][0])
    x = _strip(n.get('pat'))
    cond = it['args'][0]['body']
    while cond.get('k') == 'Block' and len(cond['stmts']) == 1 and cond['stmts'][0]['k'] == 'Expr' and not cond['stmts'][0]['semi']:
        cond = cond['stmts'][0]['expr']
    if cond.get('k') == 'Block' or not isinstance(x, dict) or not isinstance(q, dict):
        return None
    newpat = n.get('pat')
    if q.get('k') == 'Ident' and x.get('k') == 'Ident':
        if q['name'] != x['name']:
            cond = _rename_ident(cond, q['name'], x['name'])
    elif q.get('k') == 'Tuple' and x.get('k') == 'Tuple' and len(q['elems']) == len(x['elems']):
        # `for (_, field, _) in I.filter(|(_, _, attr)| C)`: one pattern that binds what either of them binds
        merged = []
        for qe, xe in zip(q['elems'], x['elems']):
            qe, xe = _strip(qe), _strip(xe)
            if xe.get('k') == 'Ident' and not xe.get('sub'):
                if qe.get('k') == 'Ident' and qe['name'] != xe['name']:
                    cond = _rename_ident(cond, qe['name'], xe['name'])
                elif qe.get('k') not in ('Ident', 'Wild'):
                    return None
                merged.append(xe)
            elif xe.get('k') == 'Wild' and qe.get('k') in ('Ident', 'Wild'):
                merged.append(qe)
            else:
                return None
        newpat = dict(x, elems=merged)
    else:
        return None
    l = n.get('l', 0)
    inner = {'k': 'If', 'cond': cond, 'then': n['body'], 'else': None, 'l': l, 'desugared': 'filter'}
    return dict(n, pat=newpat, expr=it['recv'], body={'k': 'Block', 'stmts': [{'k': 'Expr', 'expr': inner, 'semi': False, 'l': l}], 'l': l})


def norm(n):
    if isinstance(n, list):
        return [norm(x) for x in n]
    if not isinstance(n, dict):
        return n
    if n.get('k') == 'Fn' and isinstance(n.get('block'), dict):
        import copy as _copy
        n = dict(n)
        n['block'] = _copy.deepcopy(n['block'])
        _vec_pieces(n)
        _early_return_to_else(n["block"])
    n = {k: (norm(v) if not (isinstance(k, str) and k.startswith('_')) else v) for k, v in n.items()}
    k = n.get('k')
    if k == 'Block' and isinstance(n.get('stmts'), list):
        n['stmts'] = _split_n13(n['stmts'])
        r20 = _fnptr_select(n['stmts'])
        if r20 is not None:
            n['stmts'] = r20
        r24 = _classify_dispatch(n['stmts'])
        if r24 is not None:
            n['stmts'] = r24
        r26 = _let_into_next_iflet(n['stmts'])
        while r26 is not None:
            n['stmts'] = r26
            r26 = _let_into_next_iflet(n['stmts'])
        r27 = _let_into_next_for(n['stmts'])
        while r27 is not None:
            n['stmts'] = r27
            r27 = _let_into_next_for(n['stmts'])
        out = []
        for st in n['stmts']:
            rep = _any_let(st)
            if rep is None:
                rep = _try_for_each(st)
            if rep is None:
                rep = _split_tuple_let(st)
            if rep is None:
                rep = _cfg_block_let(st)
            if rep is None:
                rep = _match_as_ifs(st)
            if rep is None:
                rep = _entry_match(st)
            out.extend(rep if rep is not None else [st])
        n['stmts'] = out
    if k == 'MethodCall' and n.get('method') == 'then' and len(n.get('args', [])) == 1 and n['args'][0].get('k') == 'Closure' and not n['args'][0].get('params'):
        # N32 `C.then(|| X)` -> `if C { Some(X) } else { None }` (bool::then is lazy)
        l = n.get('l', 0)
        body = n['args'][0]['body']
        c = n['recv']
        while c.get('k') == 'Paren':
            c = c['expr']
        some = {'k': 'Call', 'l': l, 'func': _path('Some', l), 'args': [body]}
        return {'k': 'If', 'l': l, 'cond': c, 'desugared': 'bool-then',
                'then': {'k': 'Block', 'l': l, 'stmts': [{'k': 'Expr', 'expr': some, 'semi': False, 'l': l}]},
                'else': {'k': 'Block', 'l': l, 'stmts': [{'k': 'Expr', 'expr': _path('None', l), 'semi': False, 'l': l}]}}
    if k == 'Match':
        r31 = _bool_tuple_match(n)
        if r31 is not None:
            return r31
    if k == 'For':
        r27b = _filter_loop(n)
        if r27b is not None:
            n = r27b
    if k == 'Match' and any(a.get('guard') is not None for a in n.get('arms', [])):
        n = _merge_guard_arms(n)
    if k == 'Match' and any(a['pat'].get('k') == 'Or' for a in n.get('arms', [])):
        n = _split_or_arms(n)
    if k == 'If':
        r21 = _data_iflet_chain(n)
        if r21 is not None:
            return r21
    if k == 'If' and isinstance(n.get('cond'), dict) and n['cond'].get('k') == 'MethodCall' and n['cond'].get('method') == 'is_none' \
            and not n['cond'].get('args') and isinstance(n.get('then'), dict) and isinstance(n['then'].get('stmts'), list):
        r19 = _unique_filter(n['then']['stmts'])
        if r19 is not None and n['cond']['recv'].get('k') == 'Path' and n['cond']['recv']['path'].get('s') == r19[1]:
            n['then'] = dict(n['then'], stmts=r19[0])
    if k == 'Try':
        x = n.get('expr')
        if isinstance(x, dict) and x.get('k') == 'MethodCall' and x.get('method') in ('ok_or_else', 'ok_or') and len(x.get('args', [])) == 1:
            a = x['args'][0]
            err = None
            if x['method'] == 'ok_or':
                err = a
            elif a.get('k') == 'Closure' and not a.get('params'):
                err = a['body']
                while err.get('k') == 'Block' and len(err['stmts']) == 1 and err['stmts'][0]['k'] == 'Expr' and not err['stmts'][0]['semi']:
                    err = err['stmts'][0]['expr']
                if err.get('k') == 'Block':
                    err = None
            if err is not None:
                l = n.get('l', 0)
                some_pat = {'k': 'TupleStruct', 'path': _ppath('Some', l), 'qself': False,
                            'elems': [{'k': 'Ident', 'name': '__ok_value', 'by_ref': False, 'mut': False, 'sub': None, 'l': l}], 'l': l}
                none_pat = {'k': 'Ident', 'name': 'None', 'by_ref': False, 'mut': False, 'sub': None, 'l': l}
                ret = {'k': 'Return', 'expr': {'k': 'Call', 'func': _path('Err', l), 'args': [err], 'l': l}, 'l': l}
                return {'k': 'Match', 'expr': x['recv'], 'l': l, 'desugared': 'ok_or?',
                        'arms': [{'pat': some_pat, 'guard': None, 'body': _path('__ok_value', l), 'attrs': [], 'l': l},
                                 {'pat': none_pat, 'guard': None, 'body': ret, 'attrs': [], 'l': l}]}
    if k == 'Expr' and isinstance(n.get('expr'), dict) and n['expr'].get('k') == 'MethodCall' and n['expr'].get('method') == 'extend' \
            and len(n['expr'].get('args', [])) == 1 and 'semi' in n:
        call = n['expr']
        a = call['args'][0]
        l = call.get('l', 0)
        loop = None
        if a.get('k') == 'MethodCall' and a.get('method') == 'map' and len(a.get('args', [])) == 1 and a['args'][0].get('k') == 'Closure' \
                and len(a['args'][0].get('params', [])) == 1:
            clo = a['args'][0]
            body = clo['body']
            while body.get('k') == 'Block' and len(body['stmts']) == 1 and body['stmts'][0]['k'] == 'Expr' and not body['stmts'][0]['semi']:
                body = body['stmts'][0]['expr']
            if body.get('k') != 'Block':
                is_tmpl = body.get('k') == 'Macro' and isinstance(body.get('mac'), dict) and 'tmpl' in body['mac']
                inner = {'k': 'MethodCall', 'recv': call['recv'], 'method': 'extend' if is_tmpl else 'push', 'args': [body], 'turbofish': None, 'l': body.get('l', l)}
                loop = {'k': 'For', 'pat': clo['params'][0], 'expr': a['recv'], 'label': None, 'l': l, 'desugared': 'extend(map)',
                        'body': {'k': 'Block', 'stmts': [{'k': 'Expr', 'expr': inner, 'semi': True, 'l': l}], 'l': l}}
        elif call['recv'].get('k') == 'Field' and call['recv'].get('member') == 'predicates':
            item = {'k': 'Ident', 'name': '__item', 'by_ref': False, 'mut': False, 'sub': None, 'l': l}
            inner = {'k': 'MethodCall', 'recv': call['recv'], 'method': 'push', 'args': [_path('__item', l)], 'turbofish': None, 'l': l}
            loop = {'k': 'For', 'pat': item, 'expr': a, 'label': None, 'l': l, 'desugared': 'extend',
                    'body': {'k': 'Block', 'stmts': [{'k': 'Expr', 'expr': inner, 'semi': True, 'l': l}], 'l': l}}
        if loop is not None:
            loop = _filter_loop(loop) or loop
            n = dict(n)
            n['expr'] = loop
            n['semi'] = False
            return n
    if k == 'MethodCall' and n.get('method') == 'collect' and not n.get('args'):
        chain = []
        x = n['recv']
        ok = True
        while isinstance(x, dict) and x.get('k') == 'MethodCall' and x.get('method') in ('filter', 'filter_map', 'map'):
            if len(x.get('args', [])) != 1 or x['args'][0].get('k') != 'Closure' or len(x['args'][0].get('params', [])) != 1:
                ok = False
                break
            chain.append((x['method'], x['args'][0]))
            x = x['recv']
        if ok and chain:
            chain.reverse()
            l = n.get('l', 0)
            acc = '__collected'

            def let(pat, init):
                return {'k': 'Local', 'pat': pat, 'ty': None, 'init': init, 'else': None, 'attrs': [], 'l': l}

            def ident(name, mut=False):
                return {'k': 'Ident', 'name': name, 'by_ref': False, 'mut': mut, 'sub': None, 'l': l}

            def body_of(clo):
                return clo['body']
            cur = '__it0'
            stmts_stack = []      # list of (wrapper builder) applied innermost last
            inner = []            # statements of the current nesting level
            levels = [inner]
            wrappers = []
            for i, (m, clo) in enumerate(chain):
                p = clo['params'][0]
                if p.get('k') == 'Type':
                    p = p['pat']
                levels[-1].append(let(p, _path(cur, l)))
                nxt = '__it%d' % (i + 1)
                if m == 'map':
                    levels[-1].append(let(ident(nxt), body_of(clo)))
                    cur = nxt
                elif m == 'filter_map':
                    new_level = []
                    some_pat = {'k': 'TupleStruct', 'path': _ppath('Some', l), 'qself': False, 'elems': [ident(nxt)], 'l': l}
                    levels[-1].append({'k': 'Expr', 'semi': False, 'l': l, 'expr': {'k': 'If', 'cond': {'k': 'Let', 'pat': some_pat, 'expr': body_of(clo), 'l': l},
                                                                                   'then': {'k': 'Block', 'stmts': new_level, 'l': l}, 'else': None, 'l': l}})
                    levels.append(new_level)
                    cur = nxt
                else:   # filter: the item itself goes on
                    new_level = []
                    levels[-1].append({'k': 'Expr', 'semi': False, 'l': l, 'expr': {'k': 'If', 'cond': body_of(clo), 'then': {'k': 'Block', 'stmts': new_level, 'l': l}, 'else': None, 'l': l}})
                    levels.append(new_level)
            levels[-1].append({'k': 'Expr', 'semi': True, 'l': l, 'expr': {'k': 'MethodCall', 'recv': _path(acc, l), 'method': 'push', 'args': [_path(cur, l)], 'turbofish': None, 'l': l}})
            loop = {'k': 'For', 'pat': ident('__it0'), 'expr': x, 'label': None, 'l': l, 'desugared': 'collect',
                    'body': {'k': 'Block', 'stmts': inner, 'l': l}}
            init = {'k': 'Call', 'func': _path('Default::default', l), 'args': [], 'l': l}
            return {'k': 'Block', 'l': l, 'desugared': 'collect', 'stmts': [
                let(ident(acc, True), init),
                {'k': 'Expr', 'expr': loop, 'semi': False, 'l': l},
                {'k': 'Expr', 'expr': _path(acc, l), 'semi': False, 'l': l}]}
    if k == 'Match' and len(n.get('arms', [])) == 2:
        a0, a1 = n['arms']
        if a0.get('guard') is not None and a1.get('guard') is None and a1['pat'].get('k') == 'Wild' and a0['pat'].get('k') == 'TupleStruct' \
                and a0['pat']['path']['s'] == 'Some':
            import copy
            l = n.get('l', 0)

            def blk(b):
                return b if b.get('k') == 'Block' else {'k': 'Block', 'stmts': [{'k': 'Expr', 'expr': b, 'semi': False, 'l': b.get('l', l)}], 'l': b.get('l', l)}
            inner = {'k': 'If', 'cond': a0['guard'], 'then': blk(a0['body']), 'else': blk(copy.deepcopy(a1['body'])), 'l': l}
            return {'k': 'If', 'cond': {'k': 'Let', 'pat': a0['pat'], 'expr': n['expr'], 'l': l}, 'desugared': 'guarded-match', 'l': l,
                    'then': {'k': 'Block', 'stmts': [{'k': 'Expr', 'expr': inner, 'semi': False, 'l': l}], 'l': l},
                    'else': blk(copy.deepcopy(a1['body']))}
    if k == 'If' and n.get('else') is None and isinstance(n.get('cond'), dict) and n['cond'].get('k') == 'Let':
        c = n['cond']
        pat, ex = c['pat'], c['expr']
        if pat.get('k') == 'TupleStruct' and pat['path']['s'] == 'Some' and len(pat['elems']) == 1 and pat['elems'][0].get('k') == 'Ident' \
                and ex.get('k') == 'MethodCall' and ex.get('method') == 'find' and len(ex.get('args', [])) == 1 and ex['args'][0].get('k') == 'Closure' \
                and len(ex['args'][0]['params']) == 1:
            q = ex['args'][0]['params'][0]
            while q.get('k') in ('Ref', 'Type'):
                q = q['pat']
            then = n['then']
            last = then['stmts'][-1] if then.get('stmts') else None
            diverges = last is not None and last['k'] == 'Expr' and last['expr'].get('k') in ('Return', 'Break', 'Continue')
            if q.get('k') == 'Ident' and diverges:
                pname = pat['elems'][0]['name']
                cond = _rename_ident(ex['args'][0]['body'], q['name'], pname)
                while cond.get('k') == 'Block' and len(cond['stmts']) == 1 and cond['stmts'][0]['k'] == 'Expr' and not cond['stmts'][0]['semi']:
                    cond = cond['stmts'][0]['expr']
                l = n.get('l', 0)
                inner = {'k': 'If', 'cond': cond, 'then': then, 'else': None, 'l': l}
                return {'k': 'For', 'pat': pat['elems'][0], 'expr': ex['recv'], 'label': None, 'l': l, 'desugared': 'find',
                        'body': {'k': 'Block', 'stmts': [{'k': 'Expr', 'expr': inner, 'semi': False, 'l': l}], 'l': l}}
    if k == 'If' and n.get('else') is not None and isinstance(n.get('cond'), dict) and n['else'].get('k') == 'Block':
        c = n['cond']
        while c.get('k') == 'Paren':
            c = c['expr']
        flipped = None
        if c.get('k') == 'Binary' and c.get('op') == '!=':
            flipped = dict(c)
            flipped['op'] = '=='
        elif c.get('k') == 'Unary' and c.get('op') == '!':
            flipped = c['expr']
            while flipped.get('k') == 'Paren':
                flipped = flipped['expr']
            if flipped.get('k') == 'Let':
                flipped = None
        if flipped is not None:
            n = dict(n)
            n['cond'] = flipped
            n['then'], n['else'] = n['else'], n['then']
            n['desugared'] = 'flipped'
    if k == 'If':
        c = n.get('cond')
        while isinstance(c, dict) and c.get('k') == 'Paren':
            c = c['expr']
            n['cond'] = c
        if isinstance(c, dict) and c.get('k') == 'Macro' and isinstance(c.get('mac'), dict) and c['mac'].get('matches') and not c['mac']['matches'].get('guard'):
            m = c['mac']['matches']
            n['cond'] = {'k': 'Let', 'pat': m['pat'], 'expr': m['expr'], 'l': c.get('l', n.get('l', 0)), 'desugared': 'matches!'}
    return n
