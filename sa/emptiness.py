"""Evidence that "the enum has no variants" / "has at least one variant" at an emission site.  Handlers test it either on the
accumulated arms (`arms_token_stream.is_empty()`: every variant contributes at least one arm) or on the variant list itself
(`data.variants.is_empty()`, possibly through `match &ast.data { Data::Enum(d) => d.variants.is_empty(), _ => true }` or a guarded
`matches!`)."""


def _variants_term(t):
    """is t the variant list of the enum being derived?"""
    return isinstance(t, tuple) and len(t) == 3 and t[0] == 'field' and t[2] == 'variants'


def _is_empty_call(t):
    return isinstance(t, tuple) and len(t) >= 3 and t[0] == 'mcall' and t[2] == 'is_empty' and len(t) == 3


def emptiness_of_atom(a):
    """None, or True ("no variants / no arms") / False ("at least one") that the atom asserts, with the subject term"""
    if a[0] == 'empty':
        return a[2], a[1]
    if a[0] == 'truth' and isinstance(a[1], tuple):
        t = a[1]
        if _is_empty_call(t):
            return a[2], t[1]
        # match &ast.data { Data::Enum(d) => d.variants.is_empty(), _ => true }  /  if let .. { .. } else { true }
        if t[0] == 'iflet' and t[1].startswith('Data::Enum') and _is_empty_call(t[3]) and t[4] == ('lit', 'Bool', True):
            return a[2], t[3][1]
        if t[0] == 'iflet' and t[1].startswith('Data::Enum') and isinstance(t[3], tuple) and t[3][:2] == ('unary', '!') and _is_empty_call(t[3][2]) and t[4] == ('lit', 'Bool', False):
            return (not a[2]), t[3][2][1]
        if t[0] == 'unary' and t[1] == '!' and _is_empty_call(t[2]):
            return (not a[2]), t[2][1]
        if t[0] == 'matches' and len(t) >= 4 and t[2].startswith('Data::Enum') and isinstance(t[3], str):
            g = t[3].replace(' ', '')
            if g.startswith('!') and g.endswith('.variants.is_empty()'):
                return (not a[2]), ('field', ('guard',), 'variants')
            if g.endswith('.variants.is_empty()'):
                return a[2], ('field', ('guard',), 'variants')
    if a[0] == 'cond':
        g = a[1].replace(' ', '')
        if g.endswith('.variants.is_empty()') and not g.startswith('!'):
            return a[2], ('field', ('guard',), 'variants')
        if g.startswith('!') and g.endswith('.variants.is_empty()'):
            return (not a[2]), ('field', ('guard',), 'variants')
    return None


def subject_denotes_variants(subj, cx=None, fw=None):
    """does the emptiness of `subj` mean "the enum has no variants"?  The variant list itself, or a local stream to which the
    loop over the variants appends (directly in the loop body: every variant contributes).  Without cx/fw only the first form can
    be told; callers that have the handler at hand pass both."""
    if _variants_term(subj):
        return True
    if cx is None or fw is None:
        return True
    if not (isinstance(subj, tuple) and subj and subj[0] == 'var'):
        return False
    from .terms import analyse_iter, strip_refs
    tm = cx.gm.terms_of(fw)
    d = tm.def_by_id(subj[1])
    if d is None:
        return False
    for ev in fw.events:
        if ev.kind == 'mcall' and ev.method in ('extend', 'push', 'append_all') and strip_refs(ev.recv)['k'] == 'Path':
            r = strip_refs(ev.recv)
            if len(r['path']['segs']) != 1 or ev.scope.lookup(r['path']['s']) is not d:
                continue
            loops = [c for c in ev.ctx if c['k'] in ('for', 'while', 'loop')]
            if not loops or loops[-1]['k'] != 'for':
                continue
            try:
                base = tm.term(analyse_iter(loops[-1]['iter']).base, loops[-1].get('scope') or ev.scope)
            except Exception:
                continue
            if _variants_term(base):
                return True
    return False


def nonempty_evidence(atoms, cx=None, fw=None):
    return any((r := emptiness_of_atom(a)) is not None and r[0] is False and subject_denotes_variants(r[1], cx, fw) for a in atoms)


def empty_evidence(atoms, cx=None, fw=None):
    return any((r := emptiness_of_atom(a)) is not None and r[0] is True and subject_denotes_variants(r[1], cx, fw) for a in atoms)


def is_emptiness_atom(a):
    return emptiness_of_atom(a) is not None
