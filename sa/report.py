"""Findings, known-findings handling, evidence files."""
import json, os, time, sys

VERIF = os.path.dirname(os.path.dirname(os.path.abspath(__file__)))
KNOWN = os.path.join(VERIF, 'known_findings.json')
EVID = os.path.join(VERIF, 'evidence')


class Finding:
    def __init__(self, rule, where, instance, message, file=None, line=None, details=None):
        self.rule = rule
        self.where = where          # module path :: fn (no line numbers)
        self.instance = instance    # structural instance description (no line numbers)
        self.message = message
        self.file = file
        self.line = line
        self.details = details or {}

    @property
    def key(self):
        return '%s|%s|%s' % (self.rule, self.where, self.instance)

    def to_json(self):
        return {'rule': self.rule, 'key': self.key, 'file': self.file, 'line': self.line, 'function': self.where,
                'instance': self.instance, 'message': self.message, 'details': self.details}


class Report:
    def __init__(self, prop):
        self.prop = prop
        self.findings = []
        self.checked = []        # (rule, instance string, verdict)
        self.counts = {}
        self.broken = []         # reasons the check itself is broken / vacuous
        self.samples = []
        self.explanation = []
        self.assumptions = []
        self.not_decided = []
        self.extra = {}

    def ok(self, rule, instance, sample=None):
        self.checked.append((rule, instance, 'ok'))
        self.counts[rule] = self.counts.get(rule, 0) + 1
        if sample is not None and len([s for s in self.samples if s.get('rule') == rule]) < 4:
            self.samples.append(dict(sample, rule=rule, verdict='ok'))

    def bad(self, rule, where, instance, message, file=None, line=None, details=None):
        f = Finding(rule, where, instance, message, file, line, details)
        if any(x.key == f.key for x in self.findings):
            return f
        self.findings.append(f)
        self.checked.append((rule, instance, 'violation'))
        self.counts[rule] = self.counts.get(rule, 0) + 1
        return f

    def floor(self, rule, n, why=''):
        got = self.counts.get(rule, 0)
        if got < n:
            self.broken.append('rule %s evaluated %d instance(s), fewer than the floor %d counted on the pinned tree %s' % (rule, got, n, why))

    def merge(self, other):
        self.findings += [f for f in other.findings if not any(x.key == f.key for x in self.findings)]
        self.checked += other.checked
        for k, v in other.counts.items():
            self.counts[k] = self.counts.get(k, 0) + v
        self.broken += other.broken
        self.samples += other.samples


def load_known():
    try:
        with open(KNOWN) as f:
            return json.load(f)
    except FileNotFoundError:
        return {'findings': [], 'fixed': []}


def finish(report, tier, seed, t0, level='other', level_text=''):
    """print verdict lines, write evidence, return exit code."""
    known = load_known()
    known_keys = {}
    for k in known.get('findings', []):
        if k.get('property') == report.prop:
            known_keys[k['key']] = k
    os.makedirs(os.path.join(EVID, 'findings'), exist_ok=True)
    # remove stale finding files of this property
    for fn in os.listdir(os.path.join(EVID, 'findings')):
        if fn.startswith(report.prop + '-'):
            os.unlink(os.path.join(EVID, 'findings', fn))
    new = []
    n_known = 0
    for f in report.findings:
        if f.key in known_keys:
            n_known += 1
            print('KNOWN-FINDING: property=%s %s [%s]' % (report.prop, known_keys[f.key].get('what', f.message), f.key))
        else:
            new.append(f)
    for i, f in enumerate(new):
        path = os.path.join(EVID, 'findings', '%s-%d.json' % (report.prop, i + 1))
        with open(path, 'w') as fh:
            json.dump(f.to_json(), fh, indent=1, default=str)
        loc = '%s:%s' % (f.file, f.line) if f.file else ''
        print('  %s %s [%s] %s: %s' % (loc, f.where, f.rule, f.instance, f.message))
        print('VIOLATION property=%s replay=%s' % (report.prop, path))
    for b in report.broken:
        print('CHECK-BROKEN property=%s %s' % (report.prop, b))
    distinct = len(set((r, i) for r, i, _ in report.checked))
    ev = {
        'property_id': report.prop,
        'tier': tier,
        'seed': seed,
        'level': level,
        'coverage': {
            'explanation': ' '.join(report.explanation) or level_text,
            'evaluations': len(report.checked),
            'distinct_nontrivial': distinct,
            'rule': 'one evaluation = one rule instance (a construct of /repo matched by a rule and decided); distinct = distinct (rule, structural instance) pairs; trivial instances (nothing to decide) are not recorded',
            'samples': report.samples[:16] or [{'note': 'no instance sampled'}],
            'per_rule_counts': report.counts,
            'exhaustive': bool(report.extra.get('exhaustive', False)),
            'not_decided': report.not_decided,
        },
        'assumptions': report.assumptions,
        'wall_s': round(time.time() - t0, 3),
        'violations': len(new),
        'known_findings_reported': n_known,
        'check_broken': report.broken,
    }
    ev['coverage'].update({k: v for k, v in report.extra.items() if k != 'exhaustive'})
    os.makedirs(EVID, exist_ok=True)
    with open(os.path.join(EVID, report.prop + '.json'), 'w') as fh:
        json.dump(ev, fh, indent=1, default=str)
    print('%s %s: %d rule instances evaluated (%d distinct), %d violation(s), %d known finding(s), %.1fs' % (
        report.prop, tier, len(report.checked), distinct, len(new), n_known, time.time() - t0))
    if new:
        return 1
    if report.broken:
        return 2
    return 0
