"""Generated-code model: quote! templates, their holes, parsing with hole markers, emission
sites per accumulator, and top-down composition (which template lands in which syntactic
position of which other template)."""
from . import syn
from .syn import es, toks_s, path_s, walk_json
from .terms import Terms, strip_refs, term_s
from .walk import Ctx, ctx_s

MARK = '__H_'

CATS = ['items', 'implitems', 'stmts', 'expr', 'arms', 'fieldpats', 'patelems', 'fieldvals', 'args', 'type',
        'wherepreds', 'path']


def hole_names(tokens, out=None):
    if out is None:
        out = []
    for t in tokens:
        if t['t'] == 'h':
            if t['s'] not in out:
                out.append(t['s'])
        elif t['t'] in ('g', 'rep'):
            hole_names(t['ts'], out)
    return out


def has_rep(tokens):
    for t in tokens:
        if t['t'] == 'rep':
            return True
        if t['t'] == 'g' and has_rep(t['ts']):
            return True
    return False


def sole_match_brace_holes(tokens, out=None, after_match=False):
    """holes that are the sole content of the brace group of a `match <expr> { .. }`."""
    if out is None:
        out = set()
    seen_match = False
    for t in tokens:
        if t['t'] == 'i' and t['s'] == 'match':
            seen_match = True
        elif t['t'] == 'g':
            if t['d'] == '{' and seen_match:
                inner = t['ts']
                if len(inner) == 1 and inner[0]['t'] == 'h':
                    out.add(inner[0]['s'])
                seen_match = False
            sole_match_brace_holes(t['ts'], out)
        elif t['t'] == 'p' and t['s'] == ';':
            seen_match = False
    return out


def is_lifetime_term(t, depth=0):
    """does the term denote a syn::Lifetime (the `lifetime` field of a syn node, possibly through Option / references)?"""
    if not isinstance(t, tuple) or not t or depth > 6:
        return False
    if t[0] == 'field' and t[2] == 'lifetime':
        return True
    if t[0] in ('payload',) and t[1] in ('Some',) and len(t) > 3:
        return is_lifetime_term(t[3], depth + 1)
    if t[0] in ('unwrap', 'some_of', 'ref', 'deref', 'clone'):
        return is_lifetime_term(t[1], depth + 1)
    if t[0] == 'iflet':
        xs = [x for x in t[-2:] if x is not None and x != ('None',)]
        return bool(xs) and all(is_lifetime_term(x, depth + 1) for x in xs)
    if t[0] == 'mcall' and t[2] in ('as_ref', 'clone', 'unwrap') and len(t) == 3:
        return is_lifetime_term(t[1], depth + 1)
    return False


def subst(tokens, forms):
    out = []
    for t in tokens:
        k = t['t']
        if k == 'i' or k == 'l':
            out.append(t['s'] + ' ')
        elif k == 'p':
            out.append(t['s'] + ('' if t['j'] else ' '))
        elif k == 'h':
            f = forms.get(t['s'], 'ident')
            m = MARK + t['s']
            if f == 'ident':
                out.append(m + ' ')
            elif f == 'mac':
                out.append(m + '!{} ')
            elif f == 'generics':
                out.append('<' + m + '> ')
            elif f == 'where':
                out.append('where ' + m + ': __W ')
            elif f == 'arm':
                out.append(m + '!{} => {} ')
            elif f == 'lifetime':
                out.append("'" + m + ' ')
            elif f == 'lit':
                out.append('"' + m + '" ')
            elif f == 'none':
                pass
            else:
                out.append(m + ' ')
        elif k == 'g':
            d = t['d']
            close = {'(': ')', '{': '}', '[': ']', '': ''}[d]
            out.append(d + ' ' + subst(t['ts'], forms) + close + ' ')
        elif k == 'rep':
            out.append('__REP__ ')
    return ''.join(out)


WRAP = {
    'items': ('file', '%s', lambda a: a),
    'implitems': ('file', 'impl __W { %s }', lambda a: a[0]['items']),
    'stmts': ('stmts', '%s', lambda a: a),
    'expr': ('expr', '%s', lambda a: a),
    'arms': ('expr', 'match __w { %s }', lambda a: a['arms']),
    'fieldpats': ('stmts', 'let __W { %s } = __w;', lambda a: a[0]['pat']),
    'patelems': ('stmts', 'let __W ( %s ) = __w;', lambda a: a[0]['pat']['elems']),
    'fieldvals': ('expr', '__W { %s }', lambda a: a['fields']),
    'args': ('expr', '__w ( %s )', lambda a: a['args']),
    'type': ('type', '%s', lambda a: a),
    'wherepreds': ('where', '%s', lambda a: a),
    'path': ('path', '%s', lambda a: a),
}


class Template:
    def __init__(self, mac, event, fw, terms):
        self.mac = mac
        self.tokens = mac['tmpl']
        self.event = event          # 'macro' event of the quote! invocation
        self.scope = event.scope
        self.ctx = event.ctx
        self.fw = fw
        self.terms = terms
        self.fn = fw.fn
        self.line = mac['l']
        self.holes = hole_names(self.tokens)
        self.file = fw.fn.file
        self._parsed = {}

    def loc(self):
        return '%s:%d' % (self.file, self.line)

    def text(self):
        return toks_s(self.tokens).strip()

    def hole_def(self, name):
        return self.scope.lookup(name)

    def hole_term(self, name):
        d = self.hole_def(name)
        if d is None:
            return ('unbound', name)
        return self.terms.def_term(d)

    def __repr__(self):
        return 'Template(%s)' % self.loc()


class GenModel:
    """per-crate registry of templates + helpers shared by the rules."""

    def __init__(self, crate, walks):
        self.crate = crate
        self.walks = walks
        self._terms = {}
        self._tmpl_by_mac = {}
        self.templates = []
        for fw in walks.all():
            tm = self.terms_of(fw)
            for ev in fw.events:
                if ev.kind == 'macro' and 'tmpl' in ev.mac:
                    t = Template(ev.mac, ev, fw, tm)
                    self._tmpl_by_mac[id(ev.mac)] = t
                    self.templates.append(t)
        self.inlined_templates = set()
        for _ in range(4):
            if not self._inline_template_holes():
                break

    def _inline_template_holes(self):
        """`let x = quote!(U); .. quote!(.. #x ..)`: a piece of a template bound to a variable first is part of that template (the
        emitted tokens are identical).  Only for an immutable, unconditional `let` whose own holes mean the same thing at both sites."""
        changed = False
        for T in self.templates:
            def splice(tokens):
                nonlocal changed
                out = []
                for t in tokens:
                    if t['t'] == 'h':
                        d = T.scope.lookup(t['s'])
                        U = None
                        init_ = d.init if d is not None else None
                        while init_ is not None and init_['k'] in ('Ref', 'Paren'):
                            init_ = init_['expr']
                        if d is not None and d.kind == 'let' and init_ is not None and not d.assigns and not d.ppath and not getattr(d, 'twins', None) \
                                and init_['k'] == 'Macro' and 'tmpl' in init_['mac']:
                            U = self._tmpl_by_mac.get(id(init_['mac']))
                        if U is not None and U is not T and all(c in T.ctx for c in d.ctx) \
                                and all(T.scope.lookup(h) is U.scope.lookup(h) for h in U.holes) and self._holes_stable(U, T):
                            out.extend(U.tokens)
                            self.inlined_templates.add(id(U))
                            changed = True
                            continue
                        out.append(t)
                    elif t['t'] in ('g', 'rep'):
                        t2 = dict(t)
                        t2['ts'] = splice(t['ts'])
                        out.append(t2)
                    else:
                        out.append(t)
                return out
            new = splice(T.tokens)
            if new != T.tokens:
                T.tokens = new
                T.holes = hole_names(new)
                T._parsed = {}
        return changed

    def _holes_stable(self, U, T):
        """the variables interpolated in U have the same value when T is built: not reassigned, and no accumulator among them is
        extended between the two quote! invocations"""
        if U.fw is not T.fw:
            return False
        lo, hi = U.event.seq, T.event.seq
        for h in U.holes:
            hd = U.scope.lookup(h)
            if hd is None:
                return False
            if hd.assigns:
                return False
            if hd.mutable or self.is_acc_def(hd, U.fw):
                for ev in U.fw.events:
                    if lo < ev.seq < hi and ev.kind == 'mcall':
                        r = strip_refs(ev.recv)
                        if r['k'] == 'Path' and r['path']['s'] == hd.name and ev.scope.lookup(hd.name) is hd:
                            return False
        return True

    def terms_of(self, fw):
        if id(fw) not in self._terms:
            self._terms[id(fw)] = Terms(self.crate, fw)
        return self._terms[id(fw)]

    def template_of(self, mac):
        return self._tmpl_by_mac.get(id(mac))

    # -- classification of bindings -----------------------------------------------------
    def is_acc_def(self, d, fw):
        """is this binding a TokenStream accumulator (local `TokenStream::new()` or `&mut TokenStream` param)?"""
        if d is None:
            return False
        if d.kind == 'param':
            return d.ty is not None and d.ty['k'] == 'Ref' and d.ty['mut'] and 'TokenStream' in syn.ty_s(d.ty)
        if d.kind == 'let' and d.init is not None and not d.ppath:
            i = d.init
            if i['k'] == 'Call' and i['func']['k'] == 'Path' and i['func']['path']['s'].endswith('TokenStream::new'):
                return True
        return False

    def hole_class(self, tmpl, name):
        """coarse class of a hole: acc | generics:{impl,ty,where} | optstream | scalar"""
        d = tmpl.hole_def(name)
        if d is None:
            return 'unbound'
        if self.is_acc_def(d, tmpl.fw):
            return 'acc'
        t = tmpl.terms.def_term(d)
        g = generics_part(t)
        if g:
            return 'generics:' + g
        if self.is_stream_valued(d, tmpl.fw, t):
            return 'stream'
        if is_lifetime_term(t):
            return 'lifetime'
        return 'scalar'

    def is_stream_valued(self, d, fw, t):
        """value is a TokenStream / Option<TokenStream> built from templates (not an accumulator)"""
        def streamy(t):
            if not isinstance(t, tuple):
                return False
            if t[0] == 'tmpl':
                return True
            if t[0] in ('Some',):
                return any(streamy(x) for x in t[1:])
            if t[0] in ('ite', 'iflet'):
                return any(streamy(x) for x in t[-2:] if x is not None)
            if t[0] == 'cfgtwins':
                return any(streamy(x[1]) for x in t[1:])
            return False
        return streamy(t)

    # -- parsing ------------------------------------------------------------------------
    def default_forms(self, tmpl):
        forms = {}
        arms = sole_match_brace_holes(tmpl.tokens)
        for h in tmpl.holes:
            c = self.hole_class(tmpl, h)
            if c == 'generics:impl' or c == 'generics:ty':
                forms[h] = 'generics'
            elif c == 'generics:where':
                forms[h] = 'where'
            elif h in arms:
                forms[h] = 'arm'
            elif c == 'lifetime':
                forms[h] = 'lifetime'
            else:
                forms[h] = 'ident'
        return forms

    def parse(self, tmpl, cat, forms=None):
        """returns (ok, ast_or_err, forms_used). Tries ident markers first, then macro-form markers for
        accumulator / stream holes."""
        base = self.default_forms(tmpl) if forms is None else dict(forms)
        attempts = []
        if forms is None:
            flex = [h for h in tmpl.holes if base[h] == 'ident' and self.hole_class(tmpl, h) in ('acc', 'stream')]
            if flex:
                alt = dict(base)
                for h in flex:
                    alt[h] = 'mac'
                attempts.append(alt)
                attempts.append(base)
                if 1 < len(flex) <= 4:
                    import itertools as _it
                    for bits in _it.product(('mac', 'ident'), repeat=len(flex)):
                        if len(set(bits)) == 1:
                            continue
                        f2 = dict(base)
                        for h, b in zip(flex, bits):
                            f2[h] = b
                        attempts.append(f2)
            else:
                attempts.append(base)
        else:
            attempts.append(base)
        last_err = None
        for f in attempts:
            key = (cat, tuple(sorted(f.items())))
            if key not in tmpl._parsed:
                pcat, wrap, unwrap = WRAP[cat]
                text = wrap % subst(tmpl.tokens, f)
                ok, res = syn.parse(pcat, text)
                if ok:
                    try:
                        res = unwrap(res)
                    except Exception as ex:  # wrapper shape not as expected
                        ok, res = False, 'unwrap failed: %r' % (ex,)
                tmpl._parsed[key] = (ok, res, f)
            ok, res, f = tmpl._parsed[key]
            if ok:
                return True, res, f
            last_err = res
        return False, last_err, attempts[-1]

    def parse_any(self, tmpl, cats=None):
        for c in (cats or CATS):
            ok, res, f = self.parse(tmpl, c)
            if ok:
                return c, res, f
        return None, None, None


def generics_part(t):
    """term of a binding destructured from `X.split_for_impl()` / `make_where_clause()`"""
    if not isinstance(t, tuple):
        return None
    if t[0] == 'proj' and isinstance(t[2], tuple) and t[2][0] == 'mcall' and t[2][2] == 'split_for_impl':
        return {0: 'impl', 1: 'ty', 2: 'where'}.get(t[1])
    if t[0] == 'mcall' and t[2] == 'make_where_clause':
        return 'where'
    return None


def generics_source(t):
    """receiver term of the split_for_impl()/make_where_clause() a generics-part term comes from"""
    if t[0] == 'proj':
        return t[2][1]
    if t[0] == 'mcall':
        return t[1]
    return None


# ------------------------------------------------------------------------------------------
# marker positions inside a parsed template
# ------------------------------------------------------------------------------------------

def is_marker_path(p, name=None):
    if p is None:
        return None
    segs = p['segs']
    if len(segs) == 1 and segs[0]['id'].startswith(MARK) and not p['global']:
        n = segs[0]['id'][len(MARK):]
        if name is None or n == name:
            return n
    return None


def marker_of_expr(e):
    if e is None:
        return None
    if e['k'] == 'Path' and not e.get('qself'):
        return is_marker_path(e['path'])
    if e['k'] == 'Macro' and e['mac']['name'].startswith(MARK):
        return e['mac']['name'][len(MARK):]
    return None


def marker_of_pat(p):
    if p['k'] == 'Ident' and p['name'].startswith(MARK):
        return p['name'][len(MARK):]
    if p['k'] == 'Macro' and p['mac']['name'].startswith(MARK):
        return p['mac']['name'][len(MARK):]
    return None


def marker_of_type(t):
    if t is None:
        return None
    if t['k'] == 'Path' and not t.get('qself'):
        return is_marker_path(t['path'])
    if t['k'] == 'Macro' and t['mac']['name'].startswith(MARK):
        return t['mac']['name'][len(MARK):]
    return None


def marker_of_stmt(s):
    if s['k'] == 'Expr':
        return marker_of_expr(s['expr'])
    if s['k'] == 'Item' and s['item']['k'] == 'Macro' and s['item']['mac']['name'].startswith(MARK):
        return s['item']['mac']['name'][len(MARK):]
    return None


def find_markers(ast, cat):
    """list of (hole name, position category, containing node) for accumulator-style positions.
    Position categories: stmts, expr, args, patelems, fieldpats, fieldvals, arms, items, implitems, type,
    callee, member, pathseg, macarg, generics, where, lit."""
    out = []

    def in_tokens(ts, where):
        for t in ts:
            if t['t'] == 'i' and t['s'].startswith(MARK):
                out.append((t['s'][len(MARK):], where, None))
            elif t['t'] == 'g':
                in_tokens(t['ts'], where)

    def expr(e, pos='expr'):
        if e is None:
            return
        m = marker_of_expr(e)
        if m is not None and e['k'] == 'Path':
            out.append((m, pos, e))
            return
        k = e['k']
        if k == 'Macro':
            mac = e['mac']
            if mac['name'].startswith(MARK):
                out.append((mac['name'][len(MARK):], pos, e))
                return
            in_tokens(mac.get('tokens', []), 'macarg:' + mac['name'])
            return
        if k == 'Path':
            path(e['path'], 'exprpath')
            if e.get('qself'):
                ty(e['qself']['ty'])
            return
        if k == 'Call':
            f = e['func']
            fm = marker_of_expr(f)
            if fm is not None:
                out.append((fm, 'callee', e))
            else:
                expr(f)
            args_list(e['args'], 'args', e)
            return
        if k == 'MethodCall':
            expr(e['recv'], 'recv')
            if e['method'].startswith(MARK):
                out.append((e['method'][len(MARK):], 'method', e))
            for ga in e.get('turbofish') or []:
                garg(ga)
            args_list(e['args'], 'args', e)
            return
        if k == 'Field':
            expr(e['base'], 'base')
            if isinstance(e['member'], str) and e['member'].startswith(MARK):
                out.append((e['member'][len(MARK):], 'member', e))
            return
        if k == 'Struct':
            path(e['path'], 'structpath')
            for f in e['fields']:
                if isinstance(f['member'], str) and f['member'].startswith(MARK):
                    if f['shorthand']:
                        out.append((f['member'][len(MARK):], 'fieldvals', e))
                        continue
                    out.append((f['member'][len(MARK):], 'member', e))
                expr(f['expr'])
            if e.get('rest'):
                expr(e['rest'])
            return
        if k == 'Tuple' or k == 'Array':
            args_list(e['elems'], 'args', e)
            return
        if k == 'If':
            expr(e['cond'], 'cond')
            block(e['then'])
            if e.get('else'):
                expr(e['else'])
            return
        if k == 'Let':
            pat(e['pat'])
            expr(e['expr'], 'scrutinee')
            return
        if k == 'Match':
            expr(e['expr'], 'scrutinee')
            for a in e['arms']:
                pm = marker_of_pat(a['pat'])
                if pm is not None and a['pat']['k'] == 'Macro':
                    out.append((pm, 'arms', e))
                    continue
                pat(a['pat'])
                if a.get('guard'):
                    expr(a['guard'])
                expr(a['body'], 'armbody')
            return
        if k == 'Block':
            block(e)
            return
        if k == 'Unsafe':
            block(e['block'])
            return
        if k in ('For',):
            pat(e['pat'])
            expr(e['expr'])
            block(e['body'])
            return
        if k in ('While',):
            expr(e['cond'])
            block(e['body'])
            return
        if k == 'Loop':
            block(e['body'])
            return
        if k == 'Closure':
            for p in e['params']:
                pat(p)
            expr(e['body'])
            return
        if k == 'Cast':
            expr(e['expr'])
            ty(e['ty'])
            return
        if k in ('Ref', 'Unary', 'Try', 'Return', 'Break', 'RawAddr', 'Await'):
            expr(e.get('expr'), 'operand')
            return
        if k in ('Binary', 'Assign'):
            expr(e['l_'], 'operand')
            expr(e['r_'], 'operand')
            return
        if k == 'Index':
            expr(e['base'])
            expr(e['index'])
            return
        if k == 'Range':
            expr(e.get('from'))
            expr(e.get('to'))
            return
        if k == 'Repeat':
            expr(e['expr'])
            expr(e['len'])
            return
        if k == 'Lit':
            l = e['lit']
            if l['k'] == 'Str' and l['v'].startswith(MARK):
                out.append((l['v'][len(MARK):], 'lit', e))
            return

    def args_list(lst, cat, parent):
        for a in lst:
            m = marker_of_expr(a)
            if m is not None and a['k'] == 'Path':
                out.append((m, cat if len(lst) == 1 else 'arg', parent))
            else:
                expr(a, 'arg')

    def path(p, where):
        for i, seg in enumerate(p['segs']):
            if seg['id'].startswith(MARK):
                out.append((seg['id'][len(MARK):], 'pathseg', p))
            for ga in seg.get('args', []):
                garg(ga)

    def garg(ga):
        k = ga['k']
        if k == 'Type':
            ty(ga['ty'], 'garg')
        elif k == 'Const':
            expr(ga['expr'])
        elif k == 'AssocType':
            ty(ga['ty'])

    def ty(t, pos='type'):
        if t is None:
            return
        m = marker_of_type(t)
        if m is not None:
            out.append((m, 'generics' if pos == 'garg' and False else pos, t))
            return
        k = t['k']
        if k == 'Path':
            if t.get('qself'):
                ty(t['qself']['ty'])
            path(t['path'], 'typepath')
        elif k in ('Ref', 'Ptr', 'Slice'):
            ty(t['elem'])
        elif k == 'Array':
            ty(t['elem'])
            expr(t['len'])
        elif k == 'Tuple':
            for x in t['elems']:
                ty(x)
        elif k in ('ImplTrait', 'TraitObject'):
            bounds(t['bounds'])

    def bounds(bs):
        for b in bs or []:
            if b['k'] == 'Trait':
                path(b['path'], 'boundpath')

    def pat(p):
        if p is None:
            return
        m = marker_of_pat(p)
        if m is not None:
            out.append((m, 'pat', p))
            return
        k = p['k']
        if k == 'TupleStruct':
            path(p['path'], 'patpath')
            for x in p['elems']:
                mm = marker_of_pat(x)
                if mm is not None:
                    out.append((mm, 'patelems' if len(p['elems']) == 1 else 'patelem', p))
                else:
                    pat(x)
        elif k == 'Tuple' or k == 'Slice' or k == 'Or':
            for x in p.get('elems', p.get('cases', [])):
                pat(x)
        elif k == 'Struct':
            path(p['path'], 'patpath')
            for f in p['fields']:
                if f['shorthand']:
                    mm = marker_of_pat(f['pat'])
                    if mm is not None:
                        out.append((mm, 'fieldpats' if len(p['fields']) == 1 and not p['rest'] else 'fieldpat', p))
                        continue
                if isinstance(f['member'], str) and f['member'].startswith(MARK):
                    out.append((f['member'][len(MARK):], 'member', p))
                pat(f['pat'])
        elif k == 'Path':
            path(p['path'], 'patpath')
        elif k in ('Ref', 'Type'):
            pat(p['pat'])
            if k == 'Type':
                ty(p['ty'])
        elif k == 'Ident' and p.get('sub'):
            pat(p['sub'])

    def block(b):
        stmts = b['stmts']
        for i, s in enumerate(stmts):
            stmt(s, sole=(len(stmts) == 1), last=(i == len(stmts) - 1))

    def stmt(s, sole=False, last=False):
        k = s['k']
        if k == 'Local':
            pat(s['pat'])
            ty(s.get('ty'))
            expr(s.get('init'), 'init')
            if s.get('else'):
                expr(s['else'])
        elif k == 'Expr':
            e = s['expr']
            m = marker_of_expr(e)
            if m is not None:
                if e['k'] == 'Macro':
                    out.append((m, 'stmts', s))
                else:
                    out.append((m, 'stmts' if sole else ('tail' if last and not s['semi'] else 'stmt'), s))
            else:
                expr(e, 'stmt')
        elif k == 'Item':
            item(s['item'])

    def generics(g):
        for p in g['params']:
            if p['name'].startswith(MARK):
                out.append((p['name'][len(MARK):], 'generics', g))
            if p['k'] == 'Type':
                bounds(p['bounds'])
            if p['k'] == 'Const':
                ty(p['ty'])
        for w in g['where']:
            if w['k'] == 'Type':
                m = marker_of_type(w['ty'])
                if m is not None and len(w['bounds']) == 1 and w['bounds'][0].get('path', {}).get('s') == '__W':
                    out.append((m, 'where', g))
                    continue
                ty(w['ty'], 'wheretype')
                bounds(w['bounds'])

    def sig(sg):
        generics(sg['generics'])
        for a in sg['inputs']:
            if a['k'] == 'Typed':
                pat(a['pat'])
                ty(a['ty'])
            else:
                ty(a.get('ty'))
        ty(sg.get('output'))

    def item(it):
        k = it['k']
        if k == 'Fn':
            sig(it['sig'])
            block(it['block'])
        elif k == 'Impl':
            generics(it['generics'])
            if it.get('trait'):
                path(it['trait']['path'], 'traitpath')
            ty(it['self_ty'], 'selfty')
            for ii in it['items']:
                if ii['k'] == 'Fn':
                    sig(ii['sig'])
                    block(ii['block'])
                elif ii['k'] == 'Type':
                    ty(ii['ty'], 'assoctype')
                elif ii['k'] == 'Const':
                    ty(ii['ty'])
                    expr(ii['expr'])
                elif ii['k'] == 'Macro' and ii['mac']['name'].startswith(MARK):
                    out.append((ii['mac']['name'][len(MARK):], 'implitems', it))
        elif k == 'Struct' or k == 'Union':
            generics(it['generics'])
            for f in it['fields']['fields']:
                ty(f['ty'])
        elif k == 'Enum':
            generics(it['generics'])
            for v in it['variants']:
                for f in v['fields']['fields']:
                    ty(f['ty'])
        elif k == 'Macro' and it['mac']['name'].startswith(MARK):
            out.append((it['mac']['name'][len(MARK):], 'items', it))
        elif k in ('Const', 'Static'):
            ty(it['ty'])
            expr(it['expr'])
        elif k == 'TypeAlias':
            ty(it['ty'])

    def implitem(ii, parent):
        if ii['k'] == 'Fn':
            sig(ii['sig'])
            block(ii['block'])
        elif ii['k'] == 'Type':
            ty(ii['ty'], 'assoctype')
        elif ii['k'] == 'Const':
            ty(ii['ty'])
            expr(ii['expr'])
        elif ii['k'] == 'Macro' and ii['mac']['name'].startswith(MARK):
            out.append((ii['mac']['name'][len(MARK):], 'implitems', parent))

    if cat == 'items':
        for it in ast:
            item(it)
    elif cat == 'implitems':
        for ii in ast:
            implitem(ii, None)
    elif cat == 'stmts':
        block({'stmts': ast})
    elif cat == 'expr':
        expr(ast, 'expr')
    elif cat == 'arms':
        for a in ast:
            pm = marker_of_pat(a['pat'])
            if pm is not None and a['pat']['k'] == 'Macro':
                out.append((pm, 'arms', a))
                continue
            pat(a['pat'])
            if a.get('guard'):
                expr(a['guard'])
            expr(a['body'], 'armbody')
    elif cat == 'fieldpats':
        pat(ast)
    elif cat == 'patelems':
        for x in ast:
            mm = marker_of_pat(x)
            if mm is not None:
                out.append((mm, 'patelem', x))
            else:
                pat(x)
    elif cat == 'fieldvals':
        for f in ast:
            if isinstance(f['member'], str) and f['member'].startswith(MARK):
                out.append((f['member'][len(MARK):], 'fieldvals' if f['shorthand'] else 'member', f))
                if f['shorthand']:
                    continue
            expr(f['expr'])
    elif cat == 'args':
        args_list(ast, 'args', None)
    elif cat == 'type':
        ty(ast)
    elif cat == 'wherepreds':
        for w in ast:
            if w['k'] == 'Type':
                ty(w['ty'], 'wheretype')
                bounds(w['bounds'])
    elif cat == 'path':
        path(ast, 'path')
    return out
