"""Site/context walker: turns a function body into a list of events, each carrying its context
chain (enclosing loops, branches, match arms, closures, and *prior exits* of enclosing blocks)
and the lexical scope in force, so that rules can resolve identifiers to their bindings."""
import itertools
from .syn import es, pat_s, ty_s, path_s
from .model import cfgs_of_attrs

_ids = itertools.count(1)


class Def:
    def __init__(self, name, kind, line=0, init=None, src=None, ppath=(), ty=None, mutable=False,
                 ctx=(), scope=None, cfg=None, by_ref=False):
        self.id = next(_ids)
        self.name = name
        self.kind = kind        # param | let | bind | closure_param
        self.line = line
        self.init = init        # let initialiser expr
        self.src = src          # for 'bind': {'via','expr','pat','scope','id'}
        self.ppath = tuple(ppath)
        self.ty = ty
        self.mutable = mutable
        self.ctx = ctx
        self.scope = scope      # scope in which init / src expr is evaluated
        self.cfg = cfg or []
        self.assigns = []       # later assignment events
        self.twins = []         # cfg twins (same name, same block, both cfg-gated)
        self.by_ref = by_ref

    def __repr__(self):
        return 'Def(%s#%d@%d)' % (self.name, self.id, self.line)


class Scope:
    def __init__(self, parent=None):
        self.parent = parent
        self.vars = {}

    def lookup(self, name):
        s = self
        while s is not None:
            if name in s.vars:
                return s.vars[name]
            s = s.parent
        return None

    def bind(self, d):
        self.vars[d.name] = d


class Ctx(dict):
    """one context entry; behaves like a dict, hashable by identity of its construct id + polarity."""
    __getattr__ = dict.get

    def key(self):
        return (self['k'], self.get('id'), self.get('pol'), self.get('idx'))

    def __repr__(self):
        return ctx_entry_s(self)


def ctx_entry_s(c):
    k = c['k']
    if k == 'for':
        return 'for %s in %s' % (pat_s(c['pat']), es(c['iter']))
    if k == 'if':
        return ('' if c['pol'] else '!') + '(' + es(c['cond']) + ')' + ('[prior-exit]' if c.get('prior') else '')
    if k == 'iflet':
        return ('' if c['pol'] else '!') + '(let %s = %s)' % (pat_s(c['pat']), es(c['expr'])) + ('[prior-exit]' if c.get('prior') else '')
    if k == 'arm':
        g = (' if ' + es(c['guard'])) if c.get('guard') else ''
        return 'match %s => %s%s' % (es(c['scrut']), pat_s(c['pat']), g)
    if k == 'survive':
        return 'match %s survives in arms %s' % (es(c['scrut']), [pat_s(p) for p in c['pats']])
    if k == 'closure':
        return 'closure|%s|%s' % (', '.join(pat_s(p) for p in c['params']), (' arg of .' + c['callee']) if c.get('callee') else '')
    if k == 'cfg':
        return 'cfg'
    if k == 'loop':
        return c.get('what', 'loop')
    return k


def ctx_s(ctx):
    return ' / '.join(ctx_entry_s(c) for c in ctx)


class Event:
    def __init__(self, kind, node, ctx, scope, fn, **kw):
        self.kind = kind
        self.node = node
        self.ctx = ctx
        self.scope = scope
        self.fn = fn
        self.line = node.get('l', 0) if isinstance(node, dict) else 0
        self.seq = next(_ids)
        self.__dict__.update(kw)

    def __repr__(self):
        return 'Event(%s@%s:%d)' % (self.kind, self.fn.file if self.fn else '?', self.line)

    def loc(self):
        return '%s:%d' % (self.fn.file, self.line)


DIVERGING_MACROS = {'unreachable', 'panic', 'todo', 'unimplemented'}


class FnWalk:
    """events of one function."""

    def __init__(self, crate, fn):
        self.crate = crate
        self.fn = fn
        self.events = []
        self.defs = []
        self.unknown = []   # constructs the walker does not model (fail-closed hooks)
        self.root = Scope()
        self.nested_fns = []
        ctx = ()
        for a in fn.sig['inputs']:
            if a['k'] == 'Self':
                d = Def('self', 'param', fn.line, ty=a.get('ty'), scope=self.root)
                self.root.bind(d)
                self.defs.append(d)
            else:
                self._bind_pat(a['pat'], self.root, 'param', None, ctx, ty=a['ty'], line=fn.line, attrs=a.get('attrs'))
        self.param_defs = list(self.defs)
        self.tail = None
        div = self._walk_block(fn.block, self.root, ctx, is_fn_body=True)
        self.body_diverges = div

    # -- bindings -----------------------------------------------------------------------
    def _bind_pat(self, pat, scope, kind, src, ctx, ty=None, line=0, init=None, cfg=None, ppath=(), attrs=None,
                  init_scope=None):
        k = pat['k']
        if k == 'Ident':
            d = Def(pat['name'], kind, pat.get('l', line), init=init if not ppath else None, src=src, ppath=ppath,
                    ty=ty if not ppath else None, mutable=pat['mut'], ctx=ctx, scope=init_scope or scope, cfg=cfg,
                    by_ref=pat['by_ref'])
            if ppath and init is not None:
                d.src = {'via': 'let', 'expr': init, 'pat': None, 'scope': init_scope or scope, 'id': 0}
            prev = scope.lookup(d.name)
            if prev is not None and prev.cfg and d.cfg and prev.kind == 'let':
                d.twins = prev.twins + [prev]
                for t in d.twins:
                    t.twins = [x for x in d.twins if x is not t] + [d]
            scope.bind(d)
            self.defs.append(d)
            if pat.get('sub'):
                self._bind_pat(pat['sub'], scope, kind, src, ctx, line=line, init=init, cfg=cfg, ppath=ppath + (('at',),), init_scope=init_scope)
            return
        if k in ('Wild', 'Rest', 'Lit', 'Path', 'Range', 'Const'):
            return
        if k == 'Tuple':
            for i, e in enumerate(pat['elems']):
                self._bind_pat(e, scope, kind, src, ctx, line=line, init=init, cfg=cfg, ppath=ppath + (('tuple', i),), init_scope=init_scope)
            return
        if k == 'TupleStruct':
            for i, e in enumerate(pat['elems']):
                self._bind_pat(e, scope, kind, src, ctx, line=line, init=init, cfg=cfg,
                               ppath=ppath + (('ts', path_s(pat['path']), i),), init_scope=init_scope)
            return
        if k == 'Struct':
            for f in pat['fields']:
                self._bind_pat(f['pat'], scope, kind, src, ctx, line=line, init=init, cfg=cfg,
                               ppath=ppath + (('sf', path_s(pat['path']), f['member']),), init_scope=init_scope)
            return
        if k == 'Ref':
            self._bind_pat(pat['pat'], scope, kind, src, ctx, line=line, init=init, cfg=cfg, ppath=ppath + (('ref',),), init_scope=init_scope)
            return
        if k == 'Type':
            self._bind_pat(pat['pat'], scope, kind, src, ctx, ty=pat['ty'], line=line, init=init, cfg=cfg, ppath=ppath, init_scope=init_scope)
            return
        if k == 'Or':
            for c in pat['cases']:
                self._bind_pat(c, scope, kind, src, ctx, line=line, init=init, cfg=cfg, ppath=ppath + (('or',),), init_scope=init_scope)
            return
        if k == 'Slice':
            for i, e in enumerate(pat['elems']):
                self._bind_pat(e, scope, kind, src, ctx, line=line, init=init, cfg=cfg, ppath=ppath + (('slice', i),), init_scope=init_scope)
            return
        self.unknown.append((pat.get('l', line), 'pattern kind ' + k))

    # -- events -------------------------------------------------------------------------
    def _ev(self, kind, node, ctx, scope, **kw):
        e = Event(kind, node, ctx, scope, self.fn, **kw)
        self.events.append(e)
        return e

    # -- blocks -------------------------------------------------------------------------
    def _walk_block(self, block, scope, ctx, is_fn_body=False):
        scope = Scope(scope)
        div = False
        added = ()
        stmts = block['stmts']
        for i, st in enumerate(stmts):
            k = st['k']
            if k == 'Local':
                cfg = cfgs_of_attrs(st.get('attrs'))
                ictx = ctx + ((Ctx(k='cfg', preds=cfg, id=next(_ids)),) if cfg else ())
                init = st.get('init')
                residual = ()
                if init is not None:
                    d, residual = self._walk_expr(init, scope, ictx, top=True)
                    div = div or d
                if st.get('else') is not None:
                    self._walk_expr(st['else'], scope, ictx)
                    residual = residual + (Ctx(k='iflet', pat=st['pat'], expr=init, pol=True, id=next(_ids), prior=True, scope=scope),)
                init_scope = scope
                scope = Scope(scope)  # shadowing: bindings visible only to later statements
                before = len(self.defs)
                self._bind_pat(st['pat'], scope, 'let', None, ctx, ty=st.get('ty'), line=st['l'], init=init, cfg=cfg, init_scope=init_scope)
                self._ev('let', st, ictx, scope, defs=self.defs[before:], init=init)
                if residual and not cfg:
                    ctx = ctx + residual
                    added = added + residual
            elif k == 'Expr':
                e = st['expr']
                cfg = cfgs_of_attrs(e.get('attrs'))
                ectx = ctx + ((Ctx(k='cfg', preds=cfg, id=next(_ids)),) if cfg else ())
                d, residual = self._walk_expr(e, scope, ectx, top=True, stmt=True)
                if i == len(stmts) - 1 and not st['semi']:
                    self._ev('tail', e, ectx, scope, is_fn_body=is_fn_body, block=block)
                    if is_fn_body:
                        self.tail = e
                if cfg:
                    d = False  # a cfg-gated statement may be absent
                    residual = ()
                div = div or d
                if residual:
                    ctx = ctx + residual
                    added = added + residual
            elif k == 'Item':
                it = st['item']
                if it['k'] == 'Fn':
                    self.nested_fns.append(it)
                # type aliases / uses / structs inside bodies carry no behaviour
        self._block_residual = added
        return div

    # -- expressions --------------------------------------------------------------------
    def _walk_expr(self, e, scope, ctx, top=False, stmt=False):
        """returns (diverges, residual ctx entries for following statements)"""
        if e is None:
            return False, ()
        k = e['k']
        W = self._walk_expr
        if k == 'If':
            cond = e['cond']
            cid = next(_ids)
            if cond['k'] == 'Let':
                W(cond['expr'], scope, ctx)
                src = {'via': 'iflet', 'expr': cond['expr'], 'pat': cond['pat'], 'scope': scope, 'id': cid}
                pos = Ctx(k='iflet', pat=cond['pat'], expr=cond['expr'], pol=True, id=cid, scope=scope, line=e['l'])
                neg = Ctx(k='iflet', pat=cond['pat'], expr=cond['expr'], pol=False, id=cid, scope=scope, line=e['l'])
                tscope = Scope(scope)
                self._bind_pat(cond['pat'], tscope, 'bind', src, ctx + (pos,), line=e['l'])
            else:
                W(cond, scope, ctx)
                pos = Ctx(k='if', cond=cond, pol=True, id=cid, scope=scope, line=e['l'])
                neg = Ctx(k='if', cond=cond, pol=False, id=cid, scope=scope, line=e['l'])
                tscope = scope
            self._ev('branch', e, ctx, scope, pos=pos, neg=neg)
            tdiv = self._walk_block(e['then'], tscope, ctx + (pos,))
            ediv = False
            if e.get('else') is not None:
                el = e['else']
                if el['k'] == 'Block':
                    ediv = self._walk_block(el, scope, ctx + (neg,))
                else:
                    ediv, _ = W(el, scope, ctx + (neg,))
            residual = ()
            if top:
                if tdiv and not ediv:
                    r = Ctx(neg)
                    r['prior'] = True
                    residual = (r,)
                elif ediv and not tdiv:
                    r = Ctx(pos)
                    r['prior'] = True
                    residual = (r,)
            return (tdiv and ediv and e.get('else') is not None), residual
        if k == 'Match':
            W(e['expr'], scope, ctx)
            mid = next(_ids)
            arms = e['arms']
            divs = []
            self._ev('match', e, ctx, scope, id=mid)
            for idx, a in enumerate(arms):
                src = {'via': 'arm', 'expr': e['expr'], 'pat': a['pat'], 'scope': scope, 'id': mid}
                c = Ctx(k='arm', match_id=mid, id=mid, scrut=e['expr'], pat=a['pat'], guard=a.get('guard'), idx=idx,
                        narms=len(arms), attrs=a.get('attrs'), scope=scope, line=a['l'],
                        earlier=[x['pat'] for x in arms[:idx]], all_pats=[x['pat'] for x in arms],
                        cfg=cfgs_of_attrs(a.get('attrs')))
                ascope = Scope(scope)
                self._bind_pat(a['pat'], ascope, 'bind', src, ctx + (c,), line=a['l'])
                if a.get('guard') is not None:
                    W(a['guard'], ascope, ctx + (c,))
                body = a['body']
                if body['k'] == 'Block':
                    d = self._walk_block(body, ascope, ctx + (c,))
                    if body['stmts'] and body['stmts'][-1]['k'] == 'Expr' and not body['stmts'][-1]['semi']:
                        pass
                else:
                    d, _ = W(body, ascope, ctx + (c,))
                    self._ev('armval', body, ctx + (c,), ascope, match_id=mid)
                divs.append(d)
            residual = ()
            if top and any(divs) and not all(divs):
                surv = [i for i, d in enumerate(divs) if not d]
                residual = (Ctx(k='survive', id=mid, match_id=mid, scrut=e['expr'], arms=surv,
                                pats=[arms[i]['pat'] for i in surv], dead=[arms[i]['pat'] for i, d in enumerate(divs) if d],
                                scope=scope, prior=True),)
            return (all(divs) and len(divs) > 0), residual
        if k == 'Block':
            d_ = self._walk_block(e, scope, ctx)
            # the body of an inlined helper in statement position (`let t = { ..helper.. }`): what its early exits establish
            # ("from_path returned Some", "the attribute is a list") holds for the statements that follow, as it did after the call
            res_ = self._block_residual if (top and e.get('inlined')) else ()
            return d_, res_
        if k == 'Unsafe':
            self._ev('unsafe', e, ctx, scope)
            return self._walk_block(e['block'], scope, ctx), ()
        if k == 'For':
            W(e['expr'], scope, ctx)
            fid = next(_ids)
            c = Ctx(k='for', id=fid, pat=e['pat'], iter=e['expr'], scope=scope, line=e['l'])
            bscope = Scope(scope)
            src = {'via': 'for', 'expr': e['expr'], 'pat': e['pat'], 'scope': scope, 'id': fid}
            self._bind_pat(e['pat'], bscope, 'bind', src, ctx + (c,), line=e['l'])
            self._ev('for', e, ctx, scope, entry=c)
            self._walk_block(e['body'], bscope, ctx + (c,))
            return False, ()
        if k in ('While', 'Loop'):
            lid = next(_ids)
            c = Ctx(k='loop', id=lid, what=k.lower(), line=e['l'], cond=e.get('cond'), scope=scope)
            if e.get('cond') is not None:
                W(e['cond'], scope, ctx + (c,))
            self._ev('loop', e, ctx, scope, entry=c)
            self._walk_block(e['body'], scope, ctx + (c,))
            return False, ()
        if k == 'Closure':
            cid = next(_ids)
            c = Ctx(k='closure', id=cid, params=e['params'], line=e['l'], callee=None, node=e)
            cscope = Scope(scope)
            for p in e['params']:
                self._bind_pat(p, cscope, 'closure_param', {'via': 'closure', 'expr': None, 'pat': p, 'scope': scope, 'id': cid}, ctx + (c,), line=e['l'])
            self._ev('closure', e, ctx, scope, entry=c)
            body = e['body']
            if body['k'] == 'Block':
                self._walk_block(body, cscope, ctx + (c,))
            else:
                W(body, cscope, ctx + (c,))
                self._ev('closureval', body, ctx + (c,), cscope, entry=c)
            e['_ctx_entry'] = c
            return False, ()
        if k == 'Return':
            if e.get('expr') is not None:
                W(e['expr'], scope, ctx)
            self._ev('exit', e, ctx, scope, how='return', value=e.get('expr'))
            return True, ()
        if k == 'Break':
            self._ev('exit', e, ctx, scope, how='break', value=e.get('expr'))
            return True, ()
        if k == 'Continue':
            self._ev('exit', e, ctx, scope, how='continue', value=None)
            return True, ()
        if k == 'Try':
            d, _ = W(e['expr'], scope, ctx)
            self._ev('exit', e, ctx, scope, how='try', value=e['expr'])
            return d, ()
        if k == 'MethodCall':
            d1, _ = W(e['recv'], scope, ctx)
            dd = d1
            for a in e['args']:
                if a['k'] == 'Closure':
                    W(a, scope, ctx)
                    a['_ctx_entry']['callee'] = e['method']
                    a['_ctx_entry']['recv'] = e['recv']
                else:
                    d, _ = W(a, scope, ctx)
                    dd = dd or d
            self._ev('mcall', e, ctx, scope, method=e['method'], recv=e['recv'], args=e['args'])
            return dd, ()
        if k == 'Call':
            W(e['func'], scope, ctx)
            dd = False
            for a in e['args']:
                d, _ = W(a, scope, ctx)
                dd = dd or d
            f = e['func']
            self._ev('call', e, ctx, scope, func=f, path=(f['path']['s'] if f['k'] == 'Path' else None), args=e['args'])
            return dd, ()
        if k == 'Macro':
            m = e['mac']
            name = m['name'].split('::')[-1]
            for a in m.get('args') or []:
                W(a, scope, ctx)
            if 'matches' in m:
                W(m['matches']['expr'], scope, ctx)
            if m.get('span_expr'):
                W(m['span_expr'], scope, ctx)
            self._ev('macro', e, ctx, scope, name=name, mac=m)
            return (name in DIVERGING_MACROS), ()
        if k == 'Assign':
            W(e['r_'], scope, ctx)
            W(e['l_'], scope, ctx)
            ev = self._ev('assign', e, ctx, scope, target=e['l_'], value=e['r_'])
            t = e['l_']
            while t['k'] in ('Field', 'Index', 'Unary'):
                t = t.get('base') or t.get('expr')
            if t['k'] == 'Path' and len(t['path']['segs']) == 1:
                d = scope.lookup(t['path']['s'])
                if d is not None:
                    d.assigns.append(ev)
            return False, ()
        if k == 'Binary':
            W(e['l_'], scope, ctx)
            W(e['r_'], scope, ctx)
            self._ev('binary', e, ctx, scope, op=e['op'])
            if e['op'].endswith('=') and e['op'] not in ('==', '!=', '<=', '>='):
                t = e['l_']
                if t['k'] == 'Path' and len(t['path']['segs']) == 1:
                    d = scope.lookup(t['path']['s'])
                    if d is not None:
                        d.assigns.append(self._ev('assign', e, ctx, scope, target=e['l_'], value=e, compound=True))
            return False, ()
        if k == 'Unary':
            d, _ = W(e['expr'], scope, ctx)
            self._ev('unary', e, ctx, scope, op=e['op'])
            return d, ()
        if k == 'Cast':
            d, _ = W(e['expr'], scope, ctx)
            self._ev('cast', e, ctx, scope)
            return d, ()
        if k == 'Index':
            W(e['base'], scope, ctx)
            W(e['index'], scope, ctx)
            self._ev('index', e, ctx, scope)
            return False, ()
        if k == 'Struct':
            for f in e['fields']:
                W(f['expr'], scope, ctx)
            if e.get('rest'):
                W(e['rest'], scope, ctx)
            self._ev('struct', e, ctx, scope)
            return False, ()
        if k in ('Ref', 'Field', 'Await'):
            return W(e.get('expr') or e.get('base'), scope, ctx)
        if k in ('Tuple', 'Array'):
            for x in e['elems']:
                W(x, scope, ctx)
            return False, ()
        if k == 'Repeat':
            W(e['expr'], scope, ctx)
            W(e['len'], scope, ctx)
            return False, ()
        if k == 'Range':
            W(e.get('from'), scope, ctx)
            W(e.get('to'), scope, ctx)
            return False, ()
        if k == 'Let':
            # `let` outside an `if` condition (let-chains) is not modelled
            self.unknown.append((e['l'], 'let expression outside if-condition'))
            return False, ()
        if k in ('Path', 'Lit', 'Infer'):
            if k == 'Path':
                self._ev('use', e, ctx, scope)
            return False, ()
        if k == 'RawAddr':
            return W(e['expr'], scope, ctx)
        if k == 'ConstBlock':
            return self._walk_block(e['block'], scope, ctx), ()
        self.unknown.append((e.get('l', 0), 'expression kind ' + k))
        return False, ()


class Walks:
    """lazy per-function walks for a crate."""

    def __init__(self, crate):
        self.crate = crate
        self._w = {}

    def of(self, fn):
        if id(fn) not in self._w:
            self._w[id(fn)] = FnWalk(self.crate, fn)
        return self._w[id(fn)]

    def all(self):
        return [self.of(f) for f in self.crate.fns]
