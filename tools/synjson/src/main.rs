//! synjson: a thin "syn service" for the educe static checkers.
//!
//!   synjson dump <repo-root>      -> JSON of every source file reachable from src/lib.rs
//!   synjson parse                 -> stdin: [{id,cat,text}], stdout: [{id,ok,ast|err}]
//!
//! It performs no analysis; it only turns Rust syntax (of educe's own source, and of the
//! code templates educe emits) into JSON for the Python rule engine.

use std::collections::BTreeMap;
use std::io::Read;
use std::path::{Path as FsPath, PathBuf};

use proc_macro2::{Delimiter, Spacing, TokenStream, TokenTree};
use quote::ToTokens;
use serde_json::{json, Map, Value};
use syn::punctuated::Punctuated;
use syn::spanned::Spanned;
use syn::*;

fn line_of<T: Spanned>(t: &T) -> usize {
    t.span().start().line
}
fn end_line_of<T: Spanned>(t: &T) -> usize {
    t.span().end().line
}

fn ts_text(ts: &TokenStream) -> String {
    ts.to_string()
}

// ---------------------------------------------------------------------------------------
// tokens (for macro bodies / quote! templates)
// ---------------------------------------------------------------------------------------

fn tokens_json(ts: TokenStream) -> Value {
    let mut out = Vec::new();
    let mut it = ts.into_iter().peekable();
    while let Some(tt) = it.next() {
        match tt {
            TokenTree::Punct(p) if p.as_char() == '#' => {
                // quote! interpolation: `#ident`, or repetition `#( .. ) sep *`
                match it.peek() {
                    Some(TokenTree::Ident(_)) => {
                        if let Some(TokenTree::Ident(id)) = it.next() {
                            out.push(json!({"t":"h","s":id.to_string(),"l":id.span().start().line}));
                        }
                    },
                    Some(TokenTree::Group(g)) if g.delimiter() == Delimiter::Parenthesis => {
                        if let Some(TokenTree::Group(g)) = it.next() {
                            out.push(json!({"t":"rep","ts":tokens_json(g.stream()),"l":g.span().start().line}));
                        }
                    },
                    _ => {
                        out.push(json!({"t":"p","s":"#","j":p.spacing()==Spacing::Joint,"l":p.span().start().line}));
                    },
                }
            },
            TokenTree::Punct(p) => {
                out.push(json!({"t":"p","s":p.as_char().to_string(),"j":p.spacing()==Spacing::Joint,"l":p.span().start().line}));
            },
            TokenTree::Ident(id) => {
                out.push(json!({"t":"i","s":id.to_string(),"l":id.span().start().line}));
            },
            TokenTree::Literal(l) => {
                out.push(json!({"t":"l","s":l.to_string(),"l":l.span().start().line}));
            },
            TokenTree::Group(g) => {
                let d = match g.delimiter() {
                    Delimiter::Parenthesis => "(",
                    Delimiter::Brace => "{",
                    Delimiter::Bracket => "[",
                    Delimiter::None => "",
                };
                out.push(json!({"t":"g","d":d,"ts":tokens_json(g.stream()),"l":g.span().start().line}));
            },
        }
    }
    Value::Array(out)
}

// ---------------------------------------------------------------------------------------
// attributes / meta
// ---------------------------------------------------------------------------------------

fn meta_json(m: &Meta) -> Value {
    match m {
        Meta::Path(p) => json!({"k":"Path","path":path_json(p)}),
        Meta::NameValue(nv) => json!({"k":"NameValue","path":path_json(&nv.path),"value":expr_json(&nv.value)}),
        Meta::List(l) => {
            let nested = l
                .parse_args_with(Punctuated::<Meta, Token![,]>::parse_terminated)
                .ok()
                .map(|p| p.iter().map(meta_json).collect::<Vec<_>>());
            json!({"k":"List","path":path_json(&l.path),"text":ts_text(&l.tokens),"nested":nested})
        },
    }
}

fn attrs_json(attrs: &[Attribute]) -> Value {
    let mut out = Vec::new();
    for a in attrs {
        if a.path().is_ident("doc") {
            continue;
        }
        out.push(json!({
            "name": path_plain(a.path()),
            "meta": meta_json(&a.meta),
            "inner": matches!(a.style, AttrStyle::Inner(_)),
            "l": line_of(a),
        }));
    }
    Value::Array(out)
}

// ---------------------------------------------------------------------------------------
// paths, generics, types
// ---------------------------------------------------------------------------------------

fn path_plain(p: &Path) -> String {
    let mut s = String::new();
    if p.leading_colon.is_some() {
        s.push_str("::");
    }
    let mut first = true;
    for seg in p.segments.iter() {
        if !first {
            s.push_str("::");
        }
        first = false;
        s.push_str(&seg.ident.to_string());
    }
    s
}

fn generic_arg_json(a: &GenericArgument) -> Value {
    match a {
        GenericArgument::Lifetime(l) => json!({"k":"Lifetime","s":l.ident.to_string()}),
        GenericArgument::Type(t) => json!({"k":"Type","ty":type_json(t)}),
        GenericArgument::Const(e) => json!({"k":"Const","expr":expr_json(e)}),
        GenericArgument::AssocType(a) => json!({"k":"AssocType","name":a.ident.to_string(),"ty":type_json(&a.ty)}),
        GenericArgument::AssocConst(a) => json!({"k":"AssocConst","name":a.ident.to_string(),"expr":expr_json(&a.value)}),
        GenericArgument::Constraint(c) => json!({"k":"Constraint","name":c.ident.to_string(),"bounds":bounds_json(&c.bounds)}),
        _ => json!({"k":"Unknown","text":ts_text(&a.to_token_stream())}),
    }
}

fn path_json(p: &Path) -> Value {
    let mut segs = Vec::new();
    for seg in p.segments.iter() {
        let mut m = Map::new();
        m.insert("id".into(), json!(seg.ident.to_string()));
        match &seg.arguments {
            PathArguments::None => {},
            PathArguments::AngleBracketed(ab) => {
                m.insert("args".into(), Value::Array(ab.args.iter().map(generic_arg_json).collect()));
                m.insert("turbofish".into(), json!(ab.colon2_token.is_some()));
            },
            PathArguments::Parenthesized(pa) => {
                m.insert(
                    "paren".into(),
                    json!({"inputs": pa.inputs.iter().map(type_json).collect::<Vec<_>>(),
                           "output": match &pa.output { ReturnType::Default => Value::Null, ReturnType::Type(_, t) => type_json(t) }}),
                );
            },
        }
        segs.push(Value::Object(m));
    }
    json!({"global": p.leading_colon.is_some(), "segs": segs, "s": path_plain(p), "l": line_of(p)})
}

fn bounds_json(b: &Punctuated<TypeParamBound, Token![+]>) -> Value {
    Value::Array(
        b.iter()
            .map(|b| match b {
                TypeParamBound::Trait(t) => json!({"k":"Trait","path":path_json(&t.path),
                    "maybe": matches!(t.modifier, TraitBoundModifier::Maybe(_)),
                    "hrtb": t.lifetimes.as_ref().map(|l| ts_text(&l.to_token_stream()))}),
                TypeParamBound::Lifetime(l) => json!({"k":"Lifetime","s":l.ident.to_string()}),
                other => json!({"k":"Unknown","text":ts_text(&other.to_token_stream())}),
            })
            .collect(),
    )
}

fn generics_json(g: &Generics) -> Value {
    let params: Vec<Value> = g
        .params
        .iter()
        .map(|p| match p {
            GenericParam::Lifetime(l) => json!({"k":"Lifetime","name":l.lifetime.ident.to_string(),
                "bounds": l.bounds.iter().map(|b| b.ident.to_string()).collect::<Vec<_>>()}),
            GenericParam::Type(t) => json!({"k":"Type","name":t.ident.to_string(),"bounds":bounds_json(&t.bounds),
                "default": t.default.as_ref().map(type_json)}),
            GenericParam::Const(c) => json!({"k":"Const","name":c.ident.to_string(),"ty":type_json(&c.ty)}),
        })
        .collect();
    let wc: Vec<Value> = g
        .where_clause
        .as_ref()
        .map(|w| w.predicates.iter().map(where_pred_json).collect())
        .unwrap_or_default();
    json!({"params": params, "where": wc, "has_where": g.where_clause.is_some()})
}

fn where_pred_json(p: &WherePredicate) -> Value {
    match p {
        WherePredicate::Type(t) => json!({"k":"Type","ty":type_json(&t.bounded_ty),"bounds":bounds_json(&t.bounds)}),
        WherePredicate::Lifetime(l) => json!({"k":"Lifetime","name":l.lifetime.ident.to_string(),
            "bounds": l.bounds.iter().map(|b| b.ident.to_string()).collect::<Vec<_>>()}),
        other => json!({"k":"Unknown","text":ts_text(&other.to_token_stream())}),
    }
}

fn type_json(t: &Type) -> Value {
    let text = ts_text(&t.to_token_stream());
    match t {
        Type::Path(p) => json!({"k":"Path","path":path_json(&p.path),
            "qself": p.qself.as_ref().map(|q| json!({"ty":type_json(&q.ty),"pos":q.position,"as":q.as_token.is_some()})),
            "text":text}),
        Type::Reference(r) => json!({"k":"Ref","mut":r.mutability.is_some(),
            "lifetime": r.lifetime.as_ref().map(|l| l.ident.to_string()),"elem":type_json(&r.elem),"text":text}),
        Type::Ptr(p) => json!({"k":"Ptr","mut":p.mutability.is_some(),"elem":type_json(&p.elem),"text":text}),
        Type::Tuple(tu) => json!({"k":"Tuple","elems":tu.elems.iter().map(type_json).collect::<Vec<_>>(),"text":text}),
        Type::Slice(s) => json!({"k":"Slice","elem":type_json(&s.elem),"text":text}),
        Type::Array(a) => json!({"k":"Array","elem":type_json(&a.elem),"len":expr_json(&a.len),"text":text}),
        Type::Paren(p) => type_json(&p.elem),
        Type::Group(g) => type_json(&g.elem),
        Type::Infer(_) => json!({"k":"Infer","text":text}),
        Type::Never(_) => json!({"k":"Never","text":text}),
        Type::ImplTrait(i) => json!({"k":"ImplTrait","bounds":bounds_json(&i.bounds),"text":text}),
        Type::TraitObject(o) => json!({"k":"TraitObject","bounds":bounds_json(&o.bounds),"text":text}),
        Type::Macro(m) => json!({"k":"Macro","mac":macro_json(&m.mac),"text":text}),
        Type::BareFn(_) => json!({"k":"BareFn","text":text}),
        _ => json!({"k":"Unknown","text":text}),
    }
}

// ---------------------------------------------------------------------------------------
// patterns
// ---------------------------------------------------------------------------------------

fn member_json(m: &Member) -> Value {
    match m {
        Member::Named(i) => json!(i.to_string()),
        Member::Unnamed(i) => json!(i.index),
    }
}

fn pat_json(p: &Pat) -> Value {
    let l = line_of(p);
    match p {
        Pat::Ident(i) => json!({"k":"Ident","name":i.ident.to_string(),"by_ref":i.by_ref.is_some(),
            "mut":i.mutability.is_some(),"sub":i.subpat.as_ref().map(|(_, p)| pat_json(p)),"l":l}),
        Pat::Wild(_) => json!({"k":"Wild","l":l}),
        Pat::Rest(_) => json!({"k":"Rest","l":l}),
        Pat::Tuple(t) => json!({"k":"Tuple","elems":t.elems.iter().map(pat_json).collect::<Vec<_>>(),"l":l}),
        Pat::TupleStruct(t) => json!({"k":"TupleStruct","path":path_json(&t.path),
            "qself": t.qself.is_some(),
            "elems":t.elems.iter().map(pat_json).collect::<Vec<_>>(),"l":l}),
        Pat::Struct(s) => json!({"k":"Struct","path":path_json(&s.path),"qself": s.qself.is_some(),
            "fields": s.fields.iter().map(|f| json!({"member":member_json(&f.member),"pat":pat_json(&f.pat),
                "shorthand": f.colon_token.is_none(), "attrs": attrs_json(&f.attrs)})).collect::<Vec<_>>(),
            "rest": s.rest.is_some(),"l":l}),
        Pat::Path(pp) => json!({"k":"Path","path":path_json(&pp.path),"qself":pp.qself.is_some(),"l":l}),
        Pat::Lit(lit) => json!({"k":"Lit","lit":lit_json(&lit.lit),"l":l}),
        Pat::Or(o) => json!({"k":"Or","cases":o.cases.iter().map(pat_json).collect::<Vec<_>>(),"l":l}),
        Pat::Reference(r) => json!({"k":"Ref","mut":r.mutability.is_some(),"pat":pat_json(&r.pat),"l":l}),
        Pat::Type(t) => json!({"k":"Type","pat":pat_json(&t.pat),"ty":type_json(&t.ty),"l":l}),
        Pat::Paren(pp) => pat_json(&pp.pat),
        Pat::Range(r) => json!({"k":"Range","text":ts_text(&r.to_token_stream()),"l":l}),
        Pat::Slice(s) => json!({"k":"Slice","elems":s.elems.iter().map(pat_json).collect::<Vec<_>>(),"l":l}),
        Pat::Macro(m) => json!({"k":"Macro","mac":macro_json(&m.mac),"l":l}),
        Pat::Const(c) => json!({"k":"Const","text":ts_text(&c.to_token_stream()),"l":l}),
        _ => json!({"k":"Unknown","text":ts_text(&p.to_token_stream()),"l":l}),
    }
}

// ---------------------------------------------------------------------------------------
// expressions / statements
// ---------------------------------------------------------------------------------------

fn lit_json(l: &Lit) -> Value {
    match l {
        Lit::Str(s) => json!({"k":"Str","v":s.value(),"suffix":s.suffix()}),
        Lit::ByteStr(s) => json!({"k":"ByteStr","text":s.token().to_string()}),
        Lit::CStr(s) => json!({"k":"CStr","text":s.token().to_string()}),
        Lit::Byte(b) => json!({"k":"Byte","v":b.value()}),
        Lit::Char(c) => json!({"k":"Char","v":c.value().to_string()}),
        Lit::Int(i) => json!({"k":"Int","digits":i.base10_digits(),"suffix":i.suffix(),"text":i.token().to_string()}),
        Lit::Float(f) => json!({"k":"Float","digits":f.base10_digits(),"suffix":f.suffix()}),
        Lit::Bool(b) => json!({"k":"Bool","v":b.value}),
        Lit::Verbatim(v) => json!({"k":"Verbatim","text":v.to_string()}),
        _ => json!({"k":"Unknown"}),
    }
}

fn macro_json(m: &Macro) -> Value {
    let name = path_plain(&m.path);
    let mut o = Map::new();
    o.insert("name".into(), json!(name));
    o.insert("delim".into(), json!(match m.delimiter { MacroDelimiter::Paren(_) => "(", MacroDelimiter::Brace(_) => "{", MacroDelimiter::Bracket(_) => "[" }));
    o.insert("l".into(), json!(line_of(&m.path)));
    let last = m.path.segments.last().map(|s| s.ident.to_string()).unwrap_or_default();
    match last.as_str() {
        "quote" => {
            o.insert("tmpl".into(), tokens_json(m.tokens.clone()));
        },
        "quote_spanned" => {
            // `span_expr => tokens`
            let mut before = TokenStream::new();
            let mut after = TokenStream::new();
            let mut seen = false;
            let mut it = m.tokens.clone().into_iter().peekable();
            while let Some(tt) = it.next() {
                if !seen {
                    if let TokenTree::Punct(p) = &tt {
                        if p.as_char() == '=' && p.spacing() == Spacing::Joint {
                            if let Some(TokenTree::Punct(p2)) = it.peek() {
                                if p2.as_char() == '>' {
                                    it.next();
                                    seen = true;
                                    continue;
                                }
                            }
                        }
                    }
                    before.extend(std::iter::once(tt));
                } else {
                    after.extend(std::iter::once(tt));
                }
            }
            o.insert("span_expr".into(), syn::parse2::<Expr>(before).map(|e| expr_json(&e)).unwrap_or(Value::Null));
            o.insert("tmpl".into(), tokens_json(after));
        },
        "matches" => {
            struct M(Expr, Pat, Option<Expr>);
            impl parse::Parse for M {
                fn parse(input: parse::ParseStream) -> Result<Self> {
                    let e: Expr = input.parse()?;
                    input.parse::<Token![,]>()?;
                    let p = Pat::parse_multi_with_leading_vert(input)?;
                    let g = if input.peek(Token![if]) {
                        input.parse::<Token![if]>()?;
                        Some(input.parse::<Expr>()?)
                    } else {
                        None
                    };
                    let _ = input.parse::<Option<Token![,]>>();
                    Ok(M(e, p, g))
                }
            }
            if let Ok(mm) = syn::parse2::<M>(m.tokens.clone()) {
                o.insert("matches".into(), json!({"expr":expr_json(&mm.0),"pat":pat_json(&mm.1),"guard":mm.2.as_ref().map(expr_json)}));
            }
        },
        _ => {},
    }
    if !o.contains_key("tmpl") {
        if let Ok(args) = m.parse_body_with(Punctuated::<Expr, Token![,]>::parse_terminated) {
            o.insert("args".into(), Value::Array(args.iter().map(expr_json).collect()));
        }
        o.insert("tokens".into(), tokens_json(m.tokens.clone()));
        o.insert("text".into(), json!(ts_text(&m.tokens)));
    }
    Value::Object(o)
}

fn block_json(b: &Block) -> Value {
    json!({"k":"Block","stmts": b.stmts.iter().map(stmt_json).collect::<Vec<_>>(),"l":line_of(b),"el":end_line_of(b)})
}

fn stmt_json(s: &Stmt) -> Value {
    let l = line_of(s);
    match s {
        Stmt::Local(loc) => {
            let (pat, ty) = match &loc.pat {
                Pat::Type(pt) => (pat_json(&pt.pat), Some(type_json(&pt.ty))),
                p => (pat_json(p), None),
            };
            json!({"k":"Local","pat":pat,"ty":ty,
                "init": loc.init.as_ref().map(|i| expr_json(&i.expr)),
                "else": loc.init.as_ref().and_then(|i| i.diverge.as_ref()).map(|(_, e)| expr_json(e)),
                "attrs": attrs_json(&loc.attrs),"l":l})
        },
        Stmt::Item(i) => json!({"k":"Item","item":item_json(i),"l":l}),
        Stmt::Expr(e, semi) => json!({"k":"Expr","expr":expr_json(e),"semi":semi.is_some(),"l":l}),
        Stmt::Macro(m) => json!({"k":"Expr","expr":{"k":"Macro","mac":macro_json(&m.mac),"l":l,"attrs":attrs_json(&m.attrs)},
            "semi":m.semi_token.is_some(),"l":l,"stmt_macro":true}),
    }
}

fn expr_attrs(e: &Expr) -> &[Attribute] {
    match e {
        Expr::If(x) => &x.attrs,
        Expr::Match(x) => &x.attrs,
        Expr::Block(x) => &x.attrs,
        Expr::ForLoop(x) => &x.attrs,
        Expr::MethodCall(x) => &x.attrs,
        Expr::Call(x) => &x.attrs,
        Expr::Assign(x) => &x.attrs,
        Expr::Macro(x) => &x.attrs,
        Expr::Return(x) => &x.attrs,
        Expr::Unsafe(x) => &x.attrs,
        Expr::Let(x) => &x.attrs,
        Expr::Path(x) => &x.attrs,
        Expr::Closure(x) => &x.attrs,
        _ => &[],
    }
}

fn expr_json(e: &Expr) -> Value {
    let l = line_of(e);
    let mut v = expr_json_inner(e, l);
    let attrs = expr_attrs(e);
    if !attrs.is_empty() {
        if let Value::Object(m) = &mut v {
            m.insert("attrs".into(), attrs_json(attrs));
        }
    }
    v
}

fn expr_json_inner(e: &Expr, l: usize) -> Value {
    match e {
        Expr::Path(p) => json!({"k":"Path","path":path_json(&p.path),
            "qself": p.qself.as_ref().map(|q| json!({"ty":type_json(&q.ty),"pos":q.position,"as":q.as_token.is_some()})),"l":l}),
        Expr::Lit(lit) => json!({"k":"Lit","lit":lit_json(&lit.lit),"l":l}),
        Expr::Call(c) => json!({"k":"Call","func":expr_json(&c.func),"args":c.args.iter().map(expr_json).collect::<Vec<_>>(),"l":l}),
        Expr::MethodCall(m) => json!({"k":"MethodCall","recv":expr_json(&m.receiver),"method":m.method.to_string(),
            "turbofish": m.turbofish.as_ref().map(|t| t.args.iter().map(generic_arg_json).collect::<Vec<_>>()),
            "args":m.args.iter().map(expr_json).collect::<Vec<_>>(),"l":l,"ml":line_of(&m.method)}),
        Expr::Field(f) => json!({"k":"Field","base":expr_json(&f.base),"member":member_json(&f.member),"l":l}),
        Expr::Index(i) => json!({"k":"Index","base":expr_json(&i.expr),"index":expr_json(&i.index),"l":l}),
        Expr::Reference(r) => json!({"k":"Ref","mut":r.mutability.is_some(),"expr":expr_json(&r.expr),"l":l}),
        Expr::Unary(u) => json!({"k":"Unary","op":match u.op { UnOp::Deref(_) => "*", UnOp::Not(_) => "!", UnOp::Neg(_) => "-", _ => "?" },
            "expr":expr_json(&u.expr),"l":l}),
        Expr::Binary(b) => json!({"k":"Binary","op":ts_text(&b.op.to_token_stream()),"l_":expr_json(&b.left),"r_":expr_json(&b.right),"l":l}),
        Expr::Assign(a) => json!({"k":"Assign","l_":expr_json(&a.left),"r_":expr_json(&a.right),"l":l}),
        Expr::Cast(c) => json!({"k":"Cast","expr":expr_json(&c.expr),"ty":type_json(&c.ty),"l":l}),
        Expr::If(i) => json!({"k":"If","cond":expr_json(&i.cond),"then":block_json(&i.then_branch),
            "else": i.else_branch.as_ref().map(|(_, e)| expr_json(e)),"l":l}),
        Expr::Let(x) => json!({"k":"Let","pat":pat_json(&x.pat),"expr":expr_json(&x.expr),"l":l}),
        Expr::Match(m) => json!({"k":"Match","expr":expr_json(&m.expr),
            "arms": m.arms.iter().map(|a| json!({"pat":pat_json(&a.pat),"guard":a.guard.as_ref().map(|(_, g)| expr_json(g)),
                "body":expr_json(&a.body),"attrs":attrs_json(&a.attrs),"l":line_of(a)})).collect::<Vec<_>>(),"l":l}),
        Expr::Block(b) => {
            let mut v = block_json(&b.block);
            if let Some(lbl) = &b.label {
                v["label"] = json!(lbl.name.ident.to_string());
            }
            v
        },
        Expr::Unsafe(u) => json!({"k":"Unsafe","block":block_json(&u.block),"l":l}),
        Expr::Loop(lo) => json!({"k":"Loop","body":block_json(&lo.body),"l":l}),
        Expr::While(w) => json!({"k":"While","cond":expr_json(&w.cond),"body":block_json(&w.body),"l":l}),
        Expr::ForLoop(f) => json!({"k":"For","pat":pat_json(&f.pat),"expr":expr_json(&f.expr),"body":block_json(&f.body),"l":l}),
        Expr::Closure(c) => json!({"k":"Closure","params":c.inputs.iter().map(pat_json).collect::<Vec<_>>(),
            "body":expr_json(&c.body),"move":c.capture.is_some(),"l":l}),
        Expr::Return(r) => json!({"k":"Return","expr":r.expr.as_ref().map(|e| expr_json(e)),"l":l}),
        Expr::Break(b) => json!({"k":"Break","expr":b.expr.as_ref().map(|e| expr_json(e)),
            "label": b.label.as_ref().map(|x| x.ident.to_string()),"l":l}),
        Expr::Continue(c) => json!({"k":"Continue","label": c.label.as_ref().map(|x| x.ident.to_string()),"l":l}),
        Expr::Try(t) => json!({"k":"Try","expr":expr_json(&t.expr),"l":l}),
        Expr::Struct(s) => json!({"k":"Struct","path":path_json(&s.path),"qself":s.qself.is_some(),
            "fields": s.fields.iter().map(|f| json!({"member":member_json(&f.member),"expr":expr_json(&f.expr),
                "shorthand":f.colon_token.is_none(),"l":line_of(f)})).collect::<Vec<_>>(),
            "rest": s.rest.as_ref().map(|r| expr_json(r)),"dot2":s.dot2_token.is_some(),"l":l}),
        Expr::Tuple(t) => json!({"k":"Tuple","elems":t.elems.iter().map(expr_json).collect::<Vec<_>>(),"l":l}),
        Expr::Array(a) => json!({"k":"Array","elems":a.elems.iter().map(expr_json).collect::<Vec<_>>(),"l":l}),
        Expr::Repeat(r) => json!({"k":"Repeat","expr":expr_json(&r.expr),"len":expr_json(&r.len),"l":l}),
        Expr::Paren(p) => expr_json(&p.expr),
        Expr::Group(g) => expr_json(&g.expr),
        Expr::Range(r) => json!({"k":"Range","from":r.start.as_ref().map(|e| expr_json(e)),"to":r.end.as_ref().map(|e| expr_json(e)),
            "closed": matches!(r.limits, RangeLimits::Closed(_)),"l":l}),
        Expr::Macro(m) => json!({"k":"Macro","mac":macro_json(&m.mac),"l":l}),
        Expr::Await(a) => json!({"k":"Await","expr":expr_json(&a.base),"l":l}),
        Expr::Async(_) => json!({"k":"Async","text":ts_text(&e.to_token_stream()),"l":l}),
        Expr::Const(c) => json!({"k":"ConstBlock","block":block_json(&c.block),"l":l}),
        Expr::Infer(_) => json!({"k":"Infer","l":l}),
        Expr::RawAddr(r) => json!({"k":"RawAddr","mut":matches!(r.mutability, PointerMutability::Mut(_)),"expr":expr_json(&r.expr),"l":l}),
        _ => json!({"k":"Unknown","text":ts_text(&e.to_token_stream()),"l":l}),
    }
}

// ---------------------------------------------------------------------------------------
// items
// ---------------------------------------------------------------------------------------

fn vis_json(v: &Visibility) -> Value {
    match v {
        Visibility::Public(_) => json!("pub"),
        Visibility::Restricted(r) => json!(format!("pub({})", path_plain(&r.path))),
        Visibility::Inherited => json!(""),
    }
}

fn sig_json(s: &Signature) -> Value {
    let inputs: Vec<Value> = s
        .inputs
        .iter()
        .map(|a| match a {
            FnArg::Receiver(r) => json!({"k":"Self","ref":r.reference.is_some(),"mut":r.mutability.is_some(),"ty":type_json(&r.ty)}),
            FnArg::Typed(t) => json!({"k":"Typed","pat":pat_json(&t.pat),"ty":type_json(&t.ty),"attrs":attrs_json(&t.attrs)}),
        })
        .collect();
    json!({"name": s.ident.to_string(), "generics": generics_json(&s.generics), "inputs": inputs,
        "output": match &s.output { ReturnType::Default => Value::Null, ReturnType::Type(_, t) => type_json(t) },
        "const": s.constness.is_some(), "unsafe": s.unsafety.is_some()})
}

fn fields_json(f: &Fields) -> Value {
    let (kind, list): (&str, Vec<&Field>) = match f {
        Fields::Unit => ("Unit", vec![]),
        Fields::Named(n) => ("Named", n.named.iter().collect()),
        Fields::Unnamed(u) => ("Unnamed", u.unnamed.iter().collect()),
    };
    json!({"kind":kind,"fields": list.iter().map(|f| json!({"name":f.ident.as_ref().map(|i| i.to_string()),
        "ty":type_json(&f.ty),"attrs":attrs_json(&f.attrs),"vis":vis_json(&f.vis),"l":line_of(*f)})).collect::<Vec<_>>()})
}

fn use_tree_flat(prefix: &mut Vec<String>, t: &UseTree, out: &mut Vec<Value>) {
    match t {
        UseTree::Path(p) => {
            prefix.push(p.ident.to_string());
            use_tree_flat(prefix, &p.tree, out);
            prefix.pop();
        },
        UseTree::Name(n) => {
            let mut p = prefix.clone();
            p.push(n.ident.to_string());
            out.push(json!({"path":p,"name":n.ident.to_string()}));
        },
        UseTree::Rename(r) => {
            let mut p = prefix.clone();
            p.push(r.ident.to_string());
            out.push(json!({"path":p,"name":r.rename.to_string()}));
        },
        UseTree::Glob(_) => {
            out.push(json!({"path":prefix.clone(),"glob":true}));
        },
        UseTree::Group(g) => {
            for t in g.items.iter() {
                use_tree_flat(prefix, t, out);
            }
        },
    }
}

fn impl_item_json(i: &ImplItem) -> Value {
    let l = line_of(i);
    match i {
        ImplItem::Fn(f) => json!({"k":"Fn","sig":sig_json(&f.sig),"vis":vis_json(&f.vis),"block":block_json(&f.block),
            "attrs":attrs_json(&f.attrs),"l":l,"el":end_line_of(f)}),
        ImplItem::Type(t) => json!({"k":"Type","name":t.ident.to_string(),"ty":type_json(&t.ty),"attrs":attrs_json(&t.attrs),"l":l}),
        ImplItem::Const(c) => json!({"k":"Const","name":c.ident.to_string(),"ty":type_json(&c.ty),"expr":expr_json(&c.expr),"attrs":attrs_json(&c.attrs),"l":l}),
        ImplItem::Macro(m) => json!({"k":"Macro","mac":macro_json(&m.mac),"attrs":attrs_json(&m.attrs),"l":l}),
        _ => json!({"k":"Unknown","text":ts_text(&i.to_token_stream()),"l":l}),
    }
}

fn item_json(i: &Item) -> Value {
    let l = line_of(i);
    match i {
        Item::Fn(f) => json!({"k":"Fn","sig":sig_json(&f.sig),"vis":vis_json(&f.vis),"block":block_json(&f.block),
            "attrs":attrs_json(&f.attrs),"l":l,"el":end_line_of(f)}),
        Item::Impl(im) => json!({"k":"Impl","generics":generics_json(&im.generics),
            "trait": im.trait_.as_ref().map(|(neg, p, _)| json!({"path":path_json(p),"neg":neg.is_some()})),
            "self_ty": type_json(&im.self_ty),"unsafe": im.unsafety.is_some(),
            "items": im.items.iter().map(impl_item_json).collect::<Vec<_>>(),
            "attrs":attrs_json(&im.attrs),"l":l}),
        Item::Struct(s) => json!({"k":"Struct","name":s.ident.to_string(),"generics":generics_json(&s.generics),
            "fields":fields_json(&s.fields),"attrs":attrs_json(&s.attrs),"vis":vis_json(&s.vis),"l":l}),
        Item::Union(u) => json!({"k":"Union","name":u.ident.to_string(),"generics":generics_json(&u.generics),
            "fields":fields_json(&Fields::Named(u.fields.clone())),"attrs":attrs_json(&u.attrs),"l":l}),
        Item::Enum(e) => json!({"k":"Enum","name":e.ident.to_string(),"generics":generics_json(&e.generics),
            "variants": e.variants.iter().map(|v| json!({"name":v.ident.to_string(),"fields":fields_json(&v.fields),
                "discriminant": v.discriminant.as_ref().map(|(_, e)| expr_json(e)),"attrs":attrs_json(&v.attrs),"l":line_of(v)})).collect::<Vec<_>>(),
            "attrs":attrs_json(&e.attrs),"vis":vis_json(&e.vis),"l":l}),
        Item::Mod(m) => json!({"k":"Mod","name":m.ident.to_string(),"vis":vis_json(&m.vis),
            "content": m.content.as_ref().map(|(_, items)| items.iter().map(item_json).collect::<Vec<_>>()),
            "attrs":attrs_json(&m.attrs),"l":l}),
        Item::Use(u) => {
            let mut out = Vec::new();
            let mut prefix = Vec::new();
            if u.leading_colon.is_some() {
                prefix.push("".to_string());
            }
            use_tree_flat(&mut prefix, &u.tree, &mut out);
            json!({"k":"Use","vis":vis_json(&u.vis),"uses":out,"attrs":attrs_json(&u.attrs),"l":l})
        },
        Item::Const(c) => json!({"k":"Const","name":c.ident.to_string(),"ty":type_json(&c.ty),"expr":expr_json(&c.expr),
            "attrs":attrs_json(&c.attrs),"l":l}),
        Item::Static(s) => json!({"k":"Static","name":s.ident.to_string(),"ty":type_json(&s.ty),"expr":expr_json(&s.expr),
            "mut": matches!(s.mutability, StaticMutability::Mut(_)),"attrs":attrs_json(&s.attrs),"l":l}),
        Item::Type(t) => json!({"k":"TypeAlias","name":t.ident.to_string(),"generics":generics_json(&t.generics),
            "ty":type_json(&t.ty),"attrs":attrs_json(&t.attrs),"l":l}),
        Item::Trait(t) => json!({"k":"Trait","name":t.ident.to_string(),"generics":generics_json(&t.generics),
            "items": t.items.iter().map(|ti| match ti {
                TraitItem::Fn(f) => json!({"k":"Fn","sig":sig_json(&f.sig),"default":f.default.as_ref().map(block_json),"attrs":attrs_json(&f.attrs)}),
                other => json!({"k":"Other","text":ts_text(&other.to_token_stream())}),
            }).collect::<Vec<_>>(),"attrs":attrs_json(&t.attrs),"l":l}),
        Item::Macro(m) => json!({"k":"Macro","mac":macro_json(&m.mac),"ident":m.ident.as_ref().map(|i| i.to_string()),
            "attrs":attrs_json(&m.attrs),"l":l}),
        Item::ExternCrate(e) => json!({"k":"ExternCrate","name":e.ident.to_string(),"attrs":attrs_json(&e.attrs),"l":l}),
        _ => json!({"k":"Unknown","text":ts_text(&i.to_token_stream()),"l":l}),
    }
}

// ---------------------------------------------------------------------------------------
// dump: follow `mod` declarations from src/lib.rs
// ---------------------------------------------------------------------------------------

fn mod_path_attr(attrs: &[Attribute]) -> Option<String> {
    for a in attrs {
        if a.path().is_ident("path") {
            if let Meta::NameValue(nv) = &a.meta {
                if let Expr::Lit(ExprLit { lit: Lit::Str(s), .. }) = &nv.value {
                    return Some(s.value());
                }
            }
        }
    }
    None
}

fn load_file(
    root: &FsPath,
    file: &FsPath,
    mod_path: Vec<String>,
    is_mod_rs: bool,
    files: &mut BTreeMap<String, Value>,
    errors: &mut Vec<String>,
) {
    let src = match std::fs::read_to_string(file) {
        Ok(s) => s,
        Err(e) => {
            errors.push(format!("{}: cannot read: {}", file.display(), e));
            return;
        },
    };
    let parsed = match syn::parse_file(&src) {
        Ok(f) => f,
        Err(e) => {
            errors.push(format!("{}:{}: parse error: {}", file.display(), e.span().start().line, e));
            return;
        },
    };
    let rel = file.strip_prefix(root).unwrap_or(file).to_string_lossy().to_string();
    let items: Vec<Value> = parsed.items.iter().map(item_json).collect();
    files.insert(
        rel.clone(),
        json!({"mod_path": mod_path, "items": items, "attrs": attrs_json(&parsed.attrs), "lines": src.lines().count()}),
    );
    // recurse into out-of-line modules
    let dir: PathBuf = if is_mod_rs {
        file.parent().unwrap().to_path_buf()
    } else {
        file.with_extension("")
    };
    fn walk(
        root: &FsPath,
        dir: &FsPath,
        items: &[Item],
        mod_path: &Vec<String>,
        files: &mut BTreeMap<String, Value>,
        errors: &mut Vec<String>,
    ) {
        for it in items {
            if let Item::Mod(m) = it {
                let mut name = m.ident.to_string();
                if let Some(stripped) = name.strip_prefix("r#") {
                    name = stripped.to_string();
                }
                let mut mp = mod_path.clone();
                mp.push(name.clone());
                match &m.content {
                    Some((_, inner)) => {
                        walk(root, &dir.join(&name), inner, &mp, files, errors);
                    },
                    None => {
                        if let Some(p) = mod_path_attr(&m.attrs) {
                            let f = dir.join(p);
                            let is_mod = f.file_name().map(|n| n == "mod.rs").unwrap_or(false);
                            load_file(root, &f, mp, is_mod, files, errors);
                            continue;
                        }
                        let f1 = dir.join(format!("{}.rs", name));
                        let f2 = dir.join(&name).join("mod.rs");
                        if f1.exists() {
                            load_file(root, &f1, mp, false, files, errors);
                        } else if f2.exists() {
                            load_file(root, &f2, mp, true, files, errors);
                        } else {
                            errors.push(format!("module file for `{}` not found under {}", mp.join("::"), dir.display()));
                        }
                    },
                }
            }
        }
    }
    walk(root, &dir, &parsed.items, &mod_path, files, errors);
}

fn cmd_dump(root: &str) -> i32 {
    let root = PathBuf::from(root);
    let lib = root.join("src/lib.rs");
    let mut files = BTreeMap::new();
    let mut errors = Vec::new();
    // src/lib.rs behaves like a mod.rs of directory src/
    load_file(&root, &lib, vec![], true, &mut files, &mut errors);
    let cargo = std::fs::read_to_string(root.join("Cargo.toml")).unwrap_or_default();
    let out = json!({"root": root.to_string_lossy(), "files": files, "errors": errors, "cargo_toml": cargo});
    println!("{}", out);
    if errors.is_empty() { 0 } else { 3 }
}

// ---------------------------------------------------------------------------------------
// parse service
// ---------------------------------------------------------------------------------------

fn parse_one(cat: &str, text: &str) -> std::result::Result<Value, String> {
    let ts: TokenStream = text.parse().map_err(|e| format!("lex error: {}", e))?;
    match cat {
        "file" => {
            let f: File = syn::parse2(ts).map_err(|e| e.to_string())?;
            Ok(Value::Array(f.items.iter().map(item_json).collect()))
        },
        "stmts" => {
            let wrapped: TokenStream = format!("{{ {} }}", text).parse().map_err(|e| format!("lex error: {}", e))?;
            let b: Block = syn::parse2(wrapped).map_err(|e| e.to_string())?;
            Ok(Value::Array(b.stmts.iter().map(stmt_json).collect()))
        },
        "expr" => {
            let e: Expr = syn::parse2(ts).map_err(|e| e.to_string())?;
            Ok(expr_json(&e))
        },
        "type" => {
            let t: Type = syn::parse2(ts).map_err(|e| e.to_string())?;
            Ok(type_json(&t))
        },
        "pat" => {
            struct P(Pat);
            impl parse::Parse for P {
                fn parse(input: parse::ParseStream) -> Result<Self> {
                    Ok(P(Pat::parse_multi_with_leading_vert(input)?))
                }
            }
            let p: P = syn::parse2(ts).map_err(|e| e.to_string())?;
            Ok(pat_json(&p.0))
        },
        "path" => {
            let p: Path = syn::parse2(ts).map_err(|e| e.to_string())?;
            Ok(path_json(&p))
        },
        "where" => {
            struct W(Punctuated<WherePredicate, Token![,]>);
            impl parse::Parse for W {
                fn parse(input: parse::ParseStream) -> Result<Self> {
                    Ok(W(Punctuated::parse_terminated(input)?))
                }
            }
            let w: W = syn::parse2(ts).map_err(|e| e.to_string())?;
            Ok(Value::Array(w.0.iter().map(where_pred_json).collect()))
        },
        "meta" => {
            let m: Meta = syn::parse2(ts).map_err(|e| e.to_string())?;
            Ok(meta_json(&m))
        },
        "tokens" => Ok(tokens_json(ts)),
        other => Err(format!("unknown category {}", other)),
    }
}

fn cmd_parse() -> i32 {
    let mut input = String::new();
    std::io::stdin().read_to_string(&mut input).unwrap();
    let reqs: Value = match serde_json::from_str(&input) {
        Ok(v) => v,
        Err(e) => {
            eprintln!("bad request json: {}", e);
            return 2;
        },
    };
    let mut out = Vec::new();
    for r in reqs.as_array().cloned().unwrap_or_default() {
        let id = r["id"].clone();
        let cat = r["cat"].as_str().unwrap_or("");
        let text = r["text"].as_str().unwrap_or("");
        match parse_one(cat, text) {
            Ok(ast) => out.push(json!({"id":id,"ok":true,"ast":ast})),
            Err(e) => out.push(json!({"id":id,"ok":false,"err":e})),
        }
    }
    println!("{}", Value::Array(out));
    0
}

fn main() {
    let args: Vec<String> = std::env::args().collect();
    let code = match args.get(1).map(|s| s.as_str()) {
        Some("dump") => cmd_dump(args.get(2).map(|s| s.as_str()).unwrap_or("/repo")),
        Some("parse") => cmd_parse(),
        _ => {
            eprintln!("usage: synjson dump <repo> | synjson parse < requests.json");
            2
        },
    };
    std::process::exit(code);
}
