//! mirfacts: rustc driver that dumps type-resolved call / assert facts of the `educe` crate's MIR.
//! Used as RUSTC_WORKSPACE_WRAPPER under `cargo +nightly check`; writes one JSON-lines file (MIRFACTS_OUT).
#![feature(rustc_private)]

extern crate rustc_driver;
extern crate rustc_hir;
extern crate rustc_interface;
extern crate rustc_middle;
extern crate rustc_span;

use std::fmt::Write as _;

use rustc_driver::Compilation;
use rustc_interface::interface::Compiler;
use rustc_middle::mir::{AssertKind, TerminatorKind};
use rustc_middle::ty::{self, TyCtxt};

struct Cb;

fn esc(s: &str) -> String {
    let mut o = String::new();
    for c in s.chars() {
        match c {
            '"' => o.push_str("\\\""),
            '\\' => o.push_str("\\\\"),
            '\n' => o.push_str("\\n"),
            c if (c as u32) < 0x20 => {
                let _ = write!(o, "\\u{:04x}", c as u32);
            },
            c => o.push(c),
        }
    }
    o
}

fn loc(tcx: TyCtxt<'_>, span: rustc_span::Span) -> (String, usize, bool) {
    let sm = tcx.sess.source_map();
    // `exp` = written by a macro (quote!, vec!, debug_assert!, derives); compiler desugarings (`for`, `?`) are the user's own code
    let exp = span.from_expansion()
        && !matches!(span.ctxt().outer_expn_data().kind, rustc_span::ExpnKind::Desugaring(_));
    let sp = if exp { span.source_callsite() } else { span };
    let lo = sm.lookup_char_pos(sp.lo());
    let name = format!("{}", lo.file.name.prefer_local_unconditionally());
    (name, lo.line, exp)
}

impl rustc_driver::Callbacks for Cb {
    fn after_analysis<'tcx>(&mut self, _c: &Compiler, tcx: TyCtxt<'tcx>) -> Compilation {
        let krate = tcx.crate_name(rustc_hir::def_id::LOCAL_CRATE).to_string();
        if krate != "educe" {
            return Compilation::Continue;
        }
        let mut out = String::new();
        for def in tcx.hir_body_owners() {
            let def_id = def.to_def_id();
            // skip constants / statics: only functions and closures carry runtime code we care about
            let kind = tcx.def_kind(def_id);
            use rustc_hir::def::DefKind;
            if !matches!(kind, DefKind::Fn | DefKind::AssocFn | DefKind::Closure) {
                continue;
            }
            let body = tcx.optimized_mir(def_id);
            let caller = tcx.def_path_str(def_id);
            let typing_env = ty::TypingEnv::post_analysis(tcx, def_id);
            for bb in body.basic_blocks.iter() {
                let Some(term) = &bb.terminator else { continue };
                let span = term.source_info.span;
                match &term.kind {
                    TerminatorKind::Call { func, .. } => {
                        let fty = func.ty(&body.local_decls, tcx);
                        if let ty::FnDef(callee, args) = fty.kind() {
                            let mut path = tcx.def_path_str(*callee);
                            let mut resolved = false;
                            if let Ok(Some(inst)) = ty::Instance::try_resolve(tcx, typing_env, *callee, args) {
                                path = tcx.def_path_str(inst.def_id());
                                resolved = true;
                            }
                            let generic = tcx.def_path_str_with_args(*callee, args);
                            let (f, l, e) = loc(tcx, span);
                            let _ = writeln!(
                                out,
                                "{{\"k\":\"call\",\"caller\":\"{}\",\"callee\":\"{}\",\"full\":\"{}\",\"resolved\":{},\"file\":\"{}\",\"line\":{},\"exp\":{}}}",
                                esc(&caller), esc(&path), esc(&generic), resolved, esc(&f), l, e
                            );
                        } else {
                            let (f, l, e) = loc(tcx, span);
                            let _ = writeln!(
                                out,
                                "{{\"k\":\"call\",\"caller\":\"{}\",\"callee\":\"<indirect>\",\"full\":\"{}\",\"resolved\":false,\"file\":\"{}\",\"line\":{},\"exp\":{}}}",
                                esc(&caller), esc(&format!("{:?}", fty)), esc(&f), l, e
                            );
                        }
                    },
                    TerminatorKind::Assert { msg, .. } => {
                        let what = match &**msg {
                            AssertKind::BoundsCheck { .. } => "bounds".to_string(),
                            AssertKind::Overflow(op, ..) => format!("overflow:{:?}", op),
                            AssertKind::OverflowNeg(_) => "overflow:neg".to_string(),
                            AssertKind::DivisionByZero(_) => "div0".to_string(),
                            AssertKind::RemainderByZero(_) => "rem0".to_string(),
                            other => format!("{:?}", std::mem::discriminant(other)),
                        };
                        let (f, l, e) = loc(tcx, span);
                        let _ = writeln!(
                            out,
                            "{{\"k\":\"assert\",\"caller\":\"{}\",\"what\":\"{}\",\"file\":\"{}\",\"line\":{},\"exp\":{}}}",
                            esc(&caller), esc(&what), esc(&f), l, e
                        );
                    },
                    _ => {},
                }
            }
            // loops: back edges
            let dom = body.basic_blocks.dominators();
            for (bbi, bb) in body.basic_blocks.iter_enumerated() {
                if let Some(term) = &bb.terminator {
                    for succ in term.successors() {
                        if dom.dominates(succ, bbi) {
                            let (f, l, e) = loc(tcx, body.basic_blocks[succ].terminator().source_info.span);
                            let _ = writeln!(
                                out,
                                "{{\"k\":\"backedge\",\"caller\":\"{}\",\"hdr\":{},\"file\":\"{}\",\"line\":{},\"exp\":{}}}",
                                esc(&caller), succ.index(), esc(&f), l, e
                            );
                        }
                    }
                }
            }
        }
        if let Ok(p) = std::env::var("MIRFACTS_OUT") {
            let _ = std::fs::write(p, out);
        }
        Compilation::Continue
    }
}

fn main() {
    let mut args: Vec<String> = std::env::args().collect();
    // as RUSTC_WORKSPACE_WRAPPER we are called as `mirfacts <rustc> <args..>`: drop our own name
    if args.len() > 1 && (args[1].ends_with("rustc") || args[1].contains("/rustc")) {
        args.remove(0);
    }
    rustc_driver::run_compiler(&args, &mut Cb);
}
