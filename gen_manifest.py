#!/usr/bin/env python3
"""Regenerates MANIFEST.json from the table below (kept in one place so that it stays valid)."""
import json, os, subprocess
HERE = os.path.dirname(os.path.abspath(__file__))

CHECKS = {
 'C01': ('syntax-directed composition of all quote! templates (top-down parse with hole markers), optional-hole guard analysis, core-API arity table, binder/use scope analysis, impl-header provenance, member provenance of every self.#m access (declared field list), loop-scope analysis of accumulators',
         'Decides, for every path of the generator (hence every input), that the emitted token trees are well-formed items: each template parses in the category of the position it lands in, no possibly-None hole changes arity, every derived identifier used as a variable is bound under implied guards, every impl header reproduces the type\'s generics. It does not run rustc on generated programs: type/borrow errors that depend on user types are out of reach.', '§6 C01'),
 'C04': ('lint over the generated-code model of the Ord/PartialOrd enum handlers: no unsafe/pointer/cast (layout-blind), discriminant match table provenance, counter idiom of the discriminant provider (refuses above i128::MAX; the result is the vector pushed to), i128-suffixed arm literals, dominance of field comparison by discriminant equality',
         'Shape of the cross-variant comparison for all enums: safe code only, compared integers come from a match with one arm per variant carrying that variant\'s declared discriminant (explicit literal, else previous+1 from 0), fields compared only under discriminant equality.', '§6 C04'),
 'C12': ('impl-header provenance dataflow (split_for_impl / make_where_clause / Bound result only) over all impl templates; arm tables of Bound::from_meta, WherePredicatesOrBool and the predicate builders',
         'All impl headers (39 templates incl. companions, per-target Into, nested Debug wrapper) carry exactly the type\'s generics plus predicates computed by Bound; the value→mode and mode→predicates tables equal the documented ones; `*` iterates type parameters only.', '§6 C12'),
 'C16': ('type-directed census of HashMap/HashSet bindings and every iteration form over them; order-insensitive-consumer analysis over the call graph; census of environment APIs and global state; cross-checked against rustc\'s type-resolved MIR call terminators (rustc_private driver tools/mirfacts: every resolved HashMap/HashSet iteration callee must be a classified site, no callee in time/env/fs/process/thread/random/lock APIs)',
         'No iteration over a hash container can influence output or error choice (the one iteration left feeds a vector that is only queried with contains(), followed through every callee); no time/env/fs/thread/random API; no mutable global state.', '§6 C16'),
 'C17': ('census of every panic-capable construct in educe\'s source with per-site discharge rules (typestate of validated Meta paths and identifier sets over the call graph, dominance via context chains, template re-parse, bounded insert_str, arithmetic idioms); loop/recursion termination rules; cross-checked against rustc\'s MIR (rustc_private driver tools/mirfacts: every type-resolved unwrap/expect/Index/panicking call and every Assert terminator, per function and kind, must be covered by a discharged census site; every MIR loop header by an examined loop)',
         'Every unwrap/expect, panicking macro (incl. debug_assert!), index, panicking std method, unchecked arithmetic and format_ident! in the crate is proven unreachable-as-a-panic by a named rule whose premises are re-derived from the current tree; loops are finite for-loops or a recognised fresh-name search; recursion is structurally decreasing.', '§6 C17'),
 'C19': ('name-resolution lint over the generated-code model: absolute-path rule for every path and macro, receiver rule for method-call syntax, fixed-generic clash rule with fresh-name-provider verification, derived-binder injectivity, capture of user paths / const parameters by generated binders (known findings)',
         'For all inputs the generated code refers to nothing by a shadowable name: every path/macro is ::core-absolute, template-local, Self, primitive or a hole; no fixed generic parameter can clash with the type\'s generics; method-call syntax only on template locals.', '§6 C19'),
}

CHECKS.update({
 'C13': ('sibling-agreement and typestate rules over the 24 attribute scanners and 24 parameter parsers (SCAN, COUPLE, PARAM), acceptance-switch table at all ≈92 builder sites (FLAGS), unique-selection idiom with abstract interpretation of every search loop (SEL), dominance of rejection exits over emissions (SHAPE, DUP), dispatch of every educed trait to its handler (DISP)',
         'Each obligation of the statement is tied to a structural rule evaluated on every parser/handler: unknown / un-educed / repeated trait, repeated or unknown or misplaced parameter, repeated rank or Into target, missing or duplicate designation, union and unit-variant refusals, nameless Debug. The acceptance table is transcribed from the documentation by documented names only.', '§6 C13'),
 'C14': ('acceptance/conversion tables of the value helpers extracted from their match arms (p = v vs p(v), string vs bare forms), alias or-patterns, shorthand forms, read/write independence of parameter arms, per-request state scoping, full-visit, stored-unmodified and keyed-dispatch rules',
         'For every spelling pair of the property the two spellings reach the same conversion and the same assignment, hence identical attribute records and identical output; parameter and trait order are irrelevant because arms touch only their own state and dispatch is keyed.', '§6 C14'),
 'C15': ('who-may-read / who-may-call rules on the resolved source model: dispatch agreement, builder→own-models resolution, scanner trait filters, cross-module reference ban, .attrs read sites, uses of the educed-trait set (membership tests of documented partners only; every scanner call is handed the received set)',
         'The only ways information can flow into handler X are enumerated and each is shown to carry X\'s own metas/attributes or one of the three documented couplings.', '§6 C15'),
 'C18': ('rustc verdict (type check, -D warnings) on educe\'s own source per feature subset (92 quick / 4096 thorough = exhaustive), truth-table implication of cfg gates for every crate-local reference, partner-idiom rule for every cfg inside handlers, per-trait gate agreement',
         'FM is exhaustive over the 4096 configurations in the thorough tier (92 in quick); CFG-REF/CFG-SAME/CFG-GATES explain the verdict structurally and give the same-code clause: a disabled partner feature behaves exactly like a partner that is not educed.', '§6 C18'),
})

CHECKS.update({
 'C02': ('semantic summary of the generated `eq` over the generated-code model: guard-exactness per emission site, path enumeration (exactly one check per non-ignored field), operand provenance through pattern binders, per-variant arm partition, pattern element counting, pairwise injectivity of derived binder names',
         'For all inputs: single fn eq; early-false checks + true; one check per non-ignored field in declaration order with self/other accesses of that same field (self first), method iff given; one arm per variant with same-variant patterns and else-false; positional patterns cannot shift. Laws follow as a lemma for lawful field comparisons.', '§6 C02'),
 'C03': ('semantic summary of cmp/partial_cmp: collect-then-emit discipline (BTreeMap keyed by rank, default isize::MIN+index, duplicate rejection, ascending iteration), decisive-or-continue statement normal form, operand provenance, all-unit flag analysis, Ord/PartialOrd companion and dispatcher consistency, pairwise injectivity of derived binder names',
         'For all inputs the comparison is lexicographic over non-ignored fields in ascending rank with self first and method iff given; PartialOrd None propagates; Ord and PartialOrd agree when both are educed.', '§6 C03'),
 'C05': ('semantic summary of the generated `hash`: per-field feed statements with guard-exactness and path enumeration, variant-index provenance (enumerate index of the variants loop), uses of `state`',
         'For all inputs the hasher is fed the variant index (enums) and exactly the non-ignored fields once each in declaration order through the method iff given; nothing else.', '§6 C05'),
 'C06': ('path-wise semantic summary of the generated `fmt`: for every (named_field, name shown, ignored, method) case the emitted statement sequence is compared with the builder-call table; name/key provenance; builder defaults; wrapper shape; sibling agreement of the need-name refusals and the shown-fields flag behind them',
         'For all inputs the Debug impl issues exactly the core::fmt builder calls of the effective shape (struct / tuple / map with raw keys, effective name, keys, values, custom-method wrapper); core::fmt\'s rendering of that call sequence is trusted.', '§6 C06'),
 'C07': ('semantic summary of clone/clone_from: constructor shape per struct shape / variant, one CLONE(<same field>) per field in place, destination/source binder provenance via the patterns matched against self/source, fallback, bitwise-copy guard analysis',
         'For all inputs clone rebuilds the same variant field by field (method iff given), clone_from updates each destination field from the same source field or replaces self on a different variant, and `*self` is used exactly when Copy is educed without custom methods.', '§6 C07'),
 'C08': ('semantic summary of default()/new(): type-expression exclusivity, verified unique-selection of the default variant / union field, one initialiser per field (own expression iff given else <FieldTy as Default>::default()), literal auto-conversion table of common::expr',
         'For all inputs default() is the type-level expression if given, else the constructor of the struct / designated variant / designated union field with per-field expression-or-Default; new() delegates to default(); literals convert through Into exactly when the field type is not the literal\'s natural type.', '§6 C08'),
 'C09': ('semantic summary of deref/deref_mut: verified designation (only field or unique own-marked field), place-expression body, wildcard-count = designated index, binder = arm value, Target = designated type with references stripped',
         'For all inputs &*x / &mut *x is a place expression of exactly the designated field of the current variant (or the referent for reference fields).', '§6 C09'),
 'C10': ('semantic summary of the Into impls: one impl per requested target, three-way designation search validated on the search code (only field | own target list | unique same type) incl. abstract interpretation of each search loop over the selection state {None, Some}, body choice driven by method / type-equality of the designated field, binder patterns',
         'For all inputs and every requested target (and no other) into() returns the designated field through its method, unchanged, or via Into, for whichever variant.', '§6 C10'),
 'C11': ('guard-exactness of every push into the delegated-types collection against the delegation condition of its trait; bound-trait and supertraits tables; companion satisfiability under the shared where-clause',
         'For all inputs the automatic where-clause constrains exactly the field types the generated code delegates to the trait for, with the trait that code calls, plus the documented supertraits; companions are satisfiable under the primary\'s bounds.', '§6 C11'),
 'C20': ('exact-shape check of the three byte-wise union bodies (size_of::<Self>() bytes through from_raw_parts, rendered / compared / hashed once), dominance of the `unsafe` test over every emission, unsafe-first parser, acceptance switches of union builders',
         'For all unions the Debug/PartialEq/Hash impls operate on exactly the value\'s bytes and are only generated when `unsafe` was given in first position; Clone is `*self` with Copy bounds; Default initialises the designated field.', '§6 C20'),
})

NOT_YET = {
}

NA = {
}

def main():
    props = [json.loads(l) for l in open(os.path.join(HERE, 'properties.jsonl'))]
    ids = [p['id'] for p in props]
    checks = []
    for pid in ids:
        if pid in CHECKS:
            tech, text, ref = CHECKS[pid]
            checks.append({
                'property_id': pid,
                'quick_cmd': './check %s quick' % pid,
                'thorough_cmd': './check %s thorough' % pid,
                'evidence_file': 'evidence/%s.json' % pid,
                'replay_cmd_template': './check %s quick --explain {path}' % pid,
                'engine': 'educe-sa',
                'level_claimed': {'category': 'other', 'text': 'static analysis: ' + text, 'design_ref': 'DESIGN.md ' + ref},
                'level_note': 'Trusted: syn/quote/proc-macro2 print/re-parse fidelity, the semantics of the fixed ::core idioms named in DESIGN.md §2, and the analyser itself (tools/synjson + sa/). Decides the shape of educe\'s generator / own code for all inputs; does not execute educe or generated code.',
                'technique': tech,
            })
    na = []
    for pid in ids:
        if pid not in CHECKS:
            na.append({'property_id': pid, 'reason': NA.get(pid) or NOT_YET.get(pid) or 'not claimed yet: the static rules for this property are still being built in this session (see DESIGN.md §10 build order)'})
    head = subprocess.run(['git', '-C', '/repo', 'log', '--format=%H', '-1'], capture_output=True, text=True).stdout.strip()
    m = {
        'version': 1,
        'setup_cmd': 'cd tools/synjson && CARGO_NET_OFFLINE=true cargo build --release --offline && cd ../mirfacts && CARGO_NET_OFFLINE=true cargo +nightly build --release --offline',
        'hooks': {
            'guard': 'magiclen_educe_verif',
            'enable': 'none needed: the static checkers read /repo\'s source; no instrumentation is compiled into educe',
            'baseline_off_cmd': 'cd /repo && cargo test --workspace --no-fail-fast --offline',
            'source_commits': [],
            'add_only': True,
        },
        'engines': [
            {'name': 'educe-sa', 'path': 'sa/ + tools/synjson + tools/mirfacts', 'serves_properties': sorted(CHECKS), 'kind_free_text': 'repository-specific static analyser: syn-based source model with desugaring / helper-inlining / term canonicalisation passes, site/context walker, generated-code model (template grammar), rule engine in Python; rustc_private MIR fact driver (nightly) for the type-resolved cross-checks of C16/C17'},
        ],
        'checks': checks,
        'not_applicable': na,
        'notes': 'All checks are static (family: static analysis). Exit 0 held / 1 violation (VIOLATION line) / 2 checker broken or vacuous. Known findings: known_findings.json.',
    }
    json.dump(m, open(os.path.join(HERE, 'MANIFEST.json'), 'w'), indent=1)
    print('MANIFEST.json written: %d checks, %d not_applicable' % (len(checks), len(na)))

if __name__ == '__main__':
    main()
