// Finding 1: a stand-alone `#[educe(Eq)]` bounds every field type by `PartialEq`, not by `Eq`.
//
// Property clause: "for Copy and a stand-alone Eq every field [has] a type implementing the
// required trait".  The trait being implemented is `Eq`, so `Wrapper<f64>` must NOT be `Eq`
// (f64 is `PartialEq` but not `Eq`; std's `#[derive(Eq)]` rejects it).
//
// Expected: `Wrapper<u8>: Eq`, `Wrapper<f64>: !Eq`.
// Actual:   the generated impl is
//               impl<T> Eq for Wrapper<T> where T: PartialEq, Self: PartialEq {}
//           so `Wrapper<f64>` (and `E<f64>`) are `Eq`.
#![cfg(feature = "Eq")]
#![allow(dead_code)]

use core::marker::PhantomData;

use educe::Educe;

/// `impls!(Type: Trait)` evaluates to `true` iff `Type: Trait` holds (inherent-const-over-trait-const trick).
macro_rules! impls {
    ($t:ty : $($tr:tt)+) => {{
        trait DoesNot { const V: bool = false; }
        impl<T: ?Sized> DoesNot for T {}
        struct W<T: ?Sized>(PhantomData<T>);
        #[allow(dead_code)]
        impl<T: ?Sized + $($tr)+> W<T> { const V: bool = true; }
        <W<$t>>::V
    }};
}

// stand-alone Eq: PartialEq is written by hand, only Eq is educed
#[derive(Educe)]
#[educe(Eq)]
struct Wrapper<T>(T);

impl<T: PartialEq> PartialEq for Wrapper<T> {
    fn eq(&self, other: &Self) -> bool {
        self.0 == other.0
    }
}

#[derive(Educe)]
#[educe(Eq)]
enum E<T> {
    A,
    B { v: T },
}

impl<T: PartialEq> PartialEq for E<T> {
    fn eq(&self, other: &Self) -> bool {
        match (self, other) {
            (E::A, E::A) => true,
            (E::B { v: a }, E::B { v: b }) => a == b,
            _ => false,
        }
    }
}

#[test]
fn sanity_eq_field_gives_eq() {
    assert!(impls!(Wrapper<u8>: Eq));
    assert!(impls!(E<u8>: Eq));
}

#[test]
fn struct_with_non_eq_field_must_not_be_eq() {
    assert!(impls!(f64: PartialEq) && !impls!(f64: Eq));
    // FAILS on the unmodified tree: Wrapper<f64> is Eq
    assert!(!impls!(Wrapper<f64>: Eq), "Wrapper<f64> is Eq although its only field type f64 is not Eq");
}

#[test]
fn enum_with_non_eq_field_must_not_be_eq() {
    // FAILS on the unmodified tree: E<f64> is Eq
    assert!(!impls!(E<f64>: Eq), "E<f64> is Eq although the field type f64 is not Eq");
}
