// Finding 2: `#[educe(Debug)]` on a struct with an unsized tail does not compile: the generated
// code needs `FieldType: Sized` in addition to the automatic bound `FieldType: Debug`.
//
// Property: "Automatic bounds are exactly those the generated code needs" / "an educed impl
// applies to Type<Args> exactly when every field the implementation delegates to the trait for
// has a type implementing the required trait".
//
// Expected: `Tail<str>: Debug` and `Tail<[u8]>: Debug` (str and [u8] implement Debug; std's
//           `#[derive(Debug)]` accepts exactly this definition, and educe's own PartialEq / Eq /
//           PartialOrd / Ord / Hash accept it too - see `Other` below).
// Actual:   THIS FILE DOES NOT COMPILE on the unmodified tree:
//               error[E0277]: the size for values of type `T` cannot be known at compilation time
//               note: required for the cast from `&T` to `&dyn Debug`
//           because the generated body is `builder.field(&self.1)` (a `&T -> &dyn Debug` unsizing
//           cast, which needs `T: Sized`) while the where clause only says `T: Debug`.
#![cfg(feature = "Debug")]
#![allow(dead_code)]

use educe::Educe;

// the other comparison/hash traits are fine with the same shape
#[cfg(all(
    feature = "PartialEq",
    feature = "Eq",
    feature = "PartialOrd",
    feature = "Ord",
    feature = "Hash"
))]
#[derive(Educe)]
#[educe(PartialEq, Eq, PartialOrd, Ord, Hash)]
struct Other<T: ?Sized>(u8, T);

// what std accepts
#[derive(Debug)]
struct StdTail<T: ?Sized>(u8, T);

#[derive(Educe)]
#[educe(Debug)]
struct Tail<T: ?Sized>(u8, T);

#[derive(Educe)]
#[educe(Debug)]
struct NamedTail<T: ?Sized> {
    len:  u8,
    data: T,
}

// no generics at all
#[derive(Educe)]
#[educe(Debug)]
struct Bytes(u8, [u8]);

fn assert_debug<T: ?Sized + core::fmt::Debug>() {}

#[test]
fn unsized_tail_is_debug() {
    assert_debug::<StdTail<str>>();

    assert_debug::<Tail<str>>();
    assert_debug::<Tail<[u8]>>();
    assert_debug::<NamedTail<str>>();
    assert_debug::<Bytes>();

    let sized: Box<Tail<[u8; 2]>> = Box::new(Tail(1, [2, 3]));
    let dynamic: Box<Tail<[u8]>> = sized;

    assert_eq!("Tail(1, [2, 3])", format!("{:?}", dynamic));
}
