// Finding 3: for a recursive type the automatic bounds make the educed impl apply to NO
// instantiation at all.
//
// Property: "an educed impl applies to Type<Args> exactly when every field the implementation
// delegates to the trait for ... has a type implementing the required trait".
//
// For `List<u8>` the delegated fields are `value: u8` and `next: Option<Box<List<u8>>>`.
// `u8: Clone` holds, and `Option<Box<X>>: Clone` holds whenever `X: Clone`; nothing that is not
// `Clone` occurs anywhere in the type, so `List<u8>: Clone` is expected (std's `#[derive(Clone)]`
// gives exactly that, and `List<NotClone>: !Clone`).
//
// Actual: educe copies the field type into the where clause,
//             impl<T> Clone for List<T> where T: Clone, Option<Box<List<T>>>: Clone { .. }
//         Proving `List<u8>: Clone` now requires `Option<Box<List<u8>>>: Clone`, which requires
//         `List<u8>: Clone` again - rustc rejects the cycle, so the impl is emitted without any
//         diagnostic but applies to nothing: `List<u8>`, `Tree<u8>`, `Expr<u8>` are not
//         Clone / Debug / PartialEq / Hash.
//         (Calling `.clone()` directly gives `error[E0599]: no method named `clone` found for
//         struct `List<u8>``; the test below observes the same thing without a compile error.)
#![cfg(all(
    feature = "Clone",
    feature = "Debug",
    feature = "PartialEq",
    feature = "Hash",
    feature = "Default"
))]
#![allow(dead_code)]

use core::marker::PhantomData;

use educe::Educe;

/// `impls!(Type: Trait)` evaluates to `true` iff `Type: Trait` holds.
macro_rules! impls {
    ($t:ty : $($tr:tt)+) => {{
        trait DoesNot { const V: bool = false; }
        impl<T: ?Sized> DoesNot for T {}
        struct W<T: ?Sized>(PhantomData<T>);
        #[allow(dead_code)]
        impl<T: ?Sized + $($tr)+> W<T> { const V: bool = true; }
        <W<$t>>::V
    }};
}

struct Nothing; // implements none of the traits

#[derive(Educe)]
#[educe(Clone, Debug, PartialEq, Hash, Default)]
struct List<T> {
    value: T,
    next:  Option<Box<List<T>>>,
}

#[derive(Educe)]
#[educe(Clone, Debug, PartialEq)]
enum Tree<T> {
    Leaf(T),
    Node(Vec<Tree<T>>),
}

// A recursive type WITHOUT generic parameters is even worse: it is a hard compile error
// (`error[E0275]: overflow evaluating the requirement `Box<Expr>: Clone``), see
// demo_nongeneric.rs in this directory.

// the same definitions with std's derive, for comparison
#[derive(Clone, Debug, PartialEq, Hash, Default)]
struct StdList<T> {
    value: T,
    next:  Option<Box<StdList<T>>>,
}

#[test]
fn std_derive_reference_behaviour() {
    assert!(impls!(StdList<u8>: Clone));
    assert!(impls!(StdList<u8>: Default));
    assert!(!impls!(StdList<Nothing>: Clone));
}

#[test]
fn a_field_that_lacks_the_trait_blocks_the_impl() {
    // (Default is not affected: `Option<_>: Default` holds unconditionally, so there is no cycle)
    assert!(impls!(List<u8>: Default));
    assert!(!impls!(List<Nothing>: Default));
    assert!(!impls!(List<Nothing>: Clone));
    assert!(!impls!(Tree<Nothing>: core::fmt::Debug));
}

#[test]
fn recursive_struct_gets_the_impls() {
    // all FAIL on the unmodified tree
    assert!(impls!(List<u8>: Clone), "List<u8> is not Clone");
    assert!(impls!(List<u8>: core::fmt::Debug), "List<u8> is not Debug");
    assert!(impls!(List<u8>: PartialEq), "List<u8> is not PartialEq");
    assert!(impls!(List<u8>: core::hash::Hash), "List<u8> is not Hash");
}

#[test]
fn recursive_enum_gets_the_impls() {
    // all FAIL on the unmodified tree
    assert!(impls!(Tree<u8>: Clone), "Tree<u8> is not Clone");
    assert!(impls!(Tree<u8>: core::fmt::Debug), "Tree<u8> is not Debug");
    assert!(impls!(Tree<u8>: PartialEq), "Tree<u8> is not PartialEq");
}
