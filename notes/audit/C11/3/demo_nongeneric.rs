// Finding 3, second half: a recursive type without generic parameters.
//
// Expected: `Expr: Clone + Debug` (every field type - i64, Box<Expr> - implements the traits as
//           soon as Expr does; std's derive accepts this definition).
// Actual:   THIS FILE DOES NOT COMPILE on the unmodified tree:
//               error[E0275]: overflow evaluating the requirement `Box<Expr>: Clone`
//               error[E0275]: overflow evaluating the requirement `Box<Expr>: Debug`
//           because the generated impls are
//               impl Clone for Expr where i64: Clone, Box<Expr>: Clone { .. }
#![cfg(all(feature = "Clone", feature = "Debug"))]
#![allow(dead_code)]

use educe::Educe;

#[derive(Educe)]
#[educe(Clone, Debug)]
enum Expr {
    Lit(i64),
    Neg(Box<Expr>),
}

#[test]
fn recursive_non_generic_enum_gets_the_impls() {
    let e = Expr::Neg(Box::new(Expr::Lit(1)));

    assert_eq!(format!("{:?}", e), format!("{:?}", e.clone()));
}
