// C01 violation: `#[educe(Debug)]` on a struct whose last field is unsized
// (a `T: ?Sized` tail, a `[u8]` tail or a `str` tail).
//
// EXPECTED (per the property): educe accepts the request without a diagnostic, the
// user-written type is well-typed (std's `#[derive(Debug)]`, and educe's own PartialEq /
// PartialOrd / Ord / Hash, all handle these shapes), so the generated `Debug` impl must compile
// and print the fields.
//
// ACTUAL: the generated code passes `&self.tail` (a `&T` / `&[u8]` / `&str` with an unsized
// pointee) where `&dyn Debug` is expected, which needs `T: Sized`:
//
//   error[E0277]: the size for values of type `T` cannot be known at compilation time
//     = note: required for the cast from `&T` to `&dyn Debug`
//
// so this test file does not compile on the unmodified tree.
#![deny(warnings)]
#![allow(dead_code)]

use educe::Educe;

// the same shapes are fine for the other educed traits (kept here to show the shape is supported)
#[derive(Educe)]
#[educe(PartialEq, Eq, PartialOrd, Ord, Hash)]
struct Control<T: ?Sized> {
    len:  u8,
    tail: T,
}

#[derive(Educe)]
#[educe(Debug)]
struct GenericTail<T: ?Sized> {
    len:  u8,
    tail: T,
}

#[derive(Educe)]
#[educe(Debug)]
struct SliceTail {
    len:  u8,
    tail: [u8],
}

#[derive(Educe)]
#[educe(Debug)]
struct StrTail(u8, str);

#[test]
fn debug_of_unsized_tail() {
    let sized: Box<GenericTail<[u8; 2]>> = Box::new(GenericTail {
        len: 2, tail: [1, 2]
    });
    let dynamic: Box<GenericTail<[u8]>> = sized;

    assert_eq!("GenericTail { len: 2, tail: [1, 2] }", format!("{:?}", dynamic));
    assert_eq!("GenericTail { len: 1, tail: 7 }", format!("{:?}", GenericTail {
        len: 1, tail: 7u8
    }));
}
