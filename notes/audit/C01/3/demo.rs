// C01 violation: `#[educe(Default = <integer literal>)]` (or `Default(expression = <literal>)`)
// on a field whose unsigned integer type is not spelled as the bare primitive name
// (a type alias such as `type Index = usize;`, or a path such as `core::primitive::u64`),
// and `#[educe(Default = b"..")]` on a `&[u8]` field.
//
// EXPECTED (per the property): `Default = literal` is the documented form for the default value of
// a field (README, "The Default Values for Specific Fields": `#[educe(Default = 1)] f1: u8`,
// `#[educe(Default = 11111111111111111111111111111)] f2: i128`, ...). The user-written parts are
// well-typed: `let f: Index = 1;` and `let f: &'static [u8] = b"ab";` are fine, and the very same
// attributes compile when the type is written `usize` / `u64`. educe accepts the request without a
// diagnostic, so the generated `Default` impl must compile and yield these values.
//
// ACTUAL: educe decides by the *spelling* of the field type whether the literal is used as it is.
// For any other spelling it emits `::core::convert::Into::into(1)`, the literal falls back to
// `i32`, and rustc rejects the generated impl:
//
//   error[E0277]: the trait bound `usize: From<i32>` is not satisfied
//   error[E0277]: the trait bound `u64: From<i32>` is not satisfied
//   error[E0277]: the trait bound `&[u8]: From<&[u8; 2]>` is not satisfied
//
// so this test file does not compile on the unmodified tree.
#![deny(warnings)]
#![allow(dead_code)]

use educe::Educe;

type Index = usize;
type Id = u64;

// the same attributes with the primitive spelled out compile and work
#[derive(Educe)]
#[educe(Default)]
struct Control {
    #[educe(Default = 1)]
    index: usize,
    #[educe(Default(expression = 2))]
    id:    u64,
    #[educe(Default = b"ab")]
    magic: &'static [u8; 2],
}

#[derive(Educe)]
#[educe(Default)]
struct Struct {
    #[educe(Default = 1)]
    index: Index,
    #[educe(Default(expression = 2))]
    id:    Id,
    #[educe(Default = 3)]
    raw:   core::primitive::u64,
    #[educe(Default = b"ab")]
    magic: &'static [u8],
}

#[derive(Educe)]
#[educe(Default)]
enum Enum {
    Unit,
    #[educe(Default)]
    Tuple(#[educe(Default = 7)] Index),
}

#[derive(Educe)]
#[educe(Default)]
union Union {
    f1: u8,
    #[educe(Default = 9)]
    f2: Id,
}

#[test]
fn default_literal_for_aliased_integer_type() {
    let c = Control::default();
    assert_eq!((1, 2, b"ab"), (c.index, c.id, c.magic));

    let s = Struct::default();
    assert_eq!((1, 2, 3, &b"ab"[..]), (s.index, s.id, s.raw, s.magic));

    assert!(matches!(Enum::default(), Enum::Tuple(7)));

    assert_eq!(9, unsafe { Union::default().f2 });
}
