// C01 violation: `#[educe(Debug(bound(..)))]` combined with `#[educe(Debug(method(..)))]`
// when the method needs the bound which was written in `bound(..)`.
//
// This is the documented way to use a formatting function which needs some trait on a generic
// parameter (README, "Generic Parameters Bound to the `Debug` Trait or Others": "you can set the
// where predicates by yourself"; the Clone / PartialEq / PartialOrd / Ord / Hash sections show
// exactly this pattern, `bound(T: .., K: A)` + `method(f)` with `fn f<T: A>(..)`).
//
// EXPECTED (per the property): educe accepts the attributes, the user-written parts are
// well-typed (`fmt_a` is only ever used with `K: A`, which is what `bound(K: A)` says), so the
// generated code compiles. It does for `Hash`, `PartialEq` and `Clone` (see `Control`).
//
// ACTUAL: for `Debug` the call to the method is emitted inside a helper
// `impl<K> Debug for Educe__DebugField<&K, Struct<K>>` which only gets the where clause written on
// the type, not the predicates from `bound(..)`:
//
//   error[E0277]: the trait bound `K: A` is not satisfied
//
// so this test file does not compile on the unmodified tree.
#![deny(warnings)]
#![allow(dead_code)]

use core::{
    fmt::{self, Formatter},
    hash::Hasher,
};

use educe::Educe;

trait A {
    fn value(&self) -> u8;
}

impl A for u8 {
    fn value(&self) -> u8 {
        *self
    }
}

fn fmt_a<T: A>(v: &T, f: &mut Formatter<'_>) -> fmt::Result {
    fmt::Debug::fmt(&v.value(), f)
}

fn hash_a<H: Hasher, T: A>(v: &T, state: &mut H) {
    state.write_u8(v.value())
}

fn eq_a<T: A>(a: &T, b: &T) -> bool {
    a.value() == b.value()
}

// the same combination works for the other traits
#[derive(Educe)]
#[educe(Hash(bound(K: A)), PartialEq(bound(K: A)))]
struct Control<K> {
    #[educe(Hash(method(hash_a)), PartialEq(method(eq_a)))]
    f: K,
}

#[derive(Educe)]
#[educe(Debug(bound(K: A)))]
struct Struct<K> {
    #[educe(Debug(method(fmt_a)))]
    f: K,
}

#[derive(Educe)]
#[educe(Debug(bound(K: A)))]
enum Enum<K> {
    Named {
        #[educe(Debug(method(fmt_a)))]
        f: K,
    },
    Tuple(#[educe(Debug(method(fmt_a)))] K),
}

#[test]
fn debug_with_bound_and_method() {
    assert_eq!("Struct { f: 5 }", format!("{:?}", Struct {
        f: 5u8
    }));
    assert_eq!("Named { f: 6 }", format!("{:?}", Enum::Named {
        f: 6u8
    }));
    assert_eq!("Tuple(7)", format!("{:?}", Enum::Tuple(7u8)));
}
