// PROPERTY: "... each value formatted by its own Debug or by the custom method"
// (quantified over all `method` assignments at field level).
//
// EXPECTED: `#[educe(Debug(method(path)))]` works for any path to a function with the
// documented signature `fn(&T, &mut Formatter) -> fmt::Result`, whatever that function is called
// (the README example itself uses a bare function name: `method(fmt)`).
//
// ACTUAL: this file does not compile when the bare function name coincides with a local variable
// of the generated `fmt` body: `f` (the formatter parameter), `builder`, `arg`, or - in enums -
// the binding `_<field name>` / `_<index>` of a sibling field.  The path is expanded inside a
// nested `impl Debug for Educe__DebugField<..>` item, name resolution finds the *outer local*
// first and stops:
//     error[E0434]: can't capture dynamic environment in a fn item
#![allow(dead_code, non_snake_case)]

use core::fmt;

use educe::Educe;

fn f(v: &u8, fm: &mut fmt::Formatter) -> fmt::Result {
    write!(fm, "0x{:02x}", v)
}

fn builder(v: &u8, fm: &mut fmt::Formatter) -> fmt::Result {
    write!(fm, "0x{:02x}", v)
}

fn arg(v: &u8, fm: &mut fmt::Formatter) -> fmt::Result {
    write!(fm, "0x{:02x}", v)
}

fn _a(v: &u8, fm: &mut fmt::Formatter) -> fmt::Result {
    write!(fm, "0x{:02x}", v)
}

#[derive(Educe)]
#[educe(Debug)]
struct MethodF {
    #[educe(Debug(method(f)))]
    a: u8,
}

#[derive(Educe)]
#[educe(Debug)]
struct MethodBuilder {
    #[educe(Debug(method(builder)))]
    a: u8,
}

#[derive(Educe)]
#[educe(Debug)]
struct MethodArg {
    #[educe(Debug(method(arg)))]
    a: u8,
    // the second use sees the `let arg = ..` of the first one
    #[educe(Debug(method(arg)))]
    b: u8,
}

#[derive(Educe)]
#[educe(Debug)]
enum MethodBinding {
    V {
        a: u8,
        #[educe(Debug(method(_a)))]
        b: u8,
    },
}

#[test]
fn method_named_like_generated_locals() {
    assert_eq!(format!("{:?}", MethodF { a: 255 }), "MethodF { a: 0xff }");
    assert_eq!(format!("{:?}", MethodBuilder { a: 255 }), "MethodBuilder { a: 0xff }");
    assert_eq!(format!("{:?}", MethodArg { a: 255, b: 1 }), "MethodArg { a: 0xff, b: 0x01 }");
    assert_eq!(format!("{:?}", MethodBinding::V { a: 1, b: 255 }), "V { a: 1, b: 0xff }");
}
