// PROPERTY: "With no educe parameters the output is byte-identical to #[derive(Debug)]"
// (quantified over all struct definitions - this includes structs with an unsized tail).
//
// EXPECTED: a plain `#[educe(Debug)]` on a struct whose last field is unsized (`str`, `[u8]`, or a
// `T: ?Sized` parameter) compiles and prints exactly what #[derive(Debug)] prints.
//
// ACTUAL: this file does not compile.  educe passes `&self.field` straight to
// `DebugStruct::field(&str, &dyn Debug)` / `DebugTuple::field(&dyn Debug)`; `&T -> &dyn Debug`
// needs `T: Sized`:
//     error[E0277]: the size for values of type `T` cannot be known at compilation time
//     error[E0277]: the size for values of type `str` cannot be known at compilation time
// (#[derive(Debug)] passes `&&self.field` for exactly this reason.)
#![allow(dead_code)]

use educe::Educe;

mod std_derive {
    #[derive(Debug)]
    pub struct Tail<T: ?Sized> {
        pub a: u8,
        pub b: T,
    }

    #[derive(Debug)]
    pub struct Name(pub str);
}

#[derive(Educe)]
#[educe(Debug)]
pub struct Tail<T: ?Sized> {
    pub a: u8,
    pub b: T,
}

#[derive(Educe)]
#[educe(Debug)]
pub struct Name(pub str);

#[test]
fn unsized_tail_like_derive() {
    let e: &Tail<[u8]> = &Tail { a: 1, b: [1u8, 2, 3] };
    let d: &std_derive::Tail<[u8]> = &std_derive::Tail { a: 1, b: [1u8, 2, 3] };

    assert_eq!(format!("{:?}", e), format!("{:?}", d));
    assert_eq!(format!("{:#?}", e), format!("{:#?}", d));
}

#[test]
fn sized_use_of_maybe_unsized_param_like_derive() {
    let e = Tail { a: 1, b: 2u8 };
    let d = std_derive::Tail { a: 1, b: 2u8 };

    assert_eq!(format!("{:?}", e), format!("{:?}", d));
}
