// PROPERTY: "With no educe parameters the output is byte-identical to #[derive(Debug)]"
// (quantified over all struct/enum definitions).
//
// EXPECTED: a plain `#[educe(Debug)]` on a self-referential (recursive) type - the classic
// cons list / linked node - compiles and prints exactly what #[derive(Debug)] prints.
//
// ACTUAL: this file does not compile.  educe adds one where-predicate per *field type*
// (`Box<List>: Debug`, `Option<Box<Node>>: Debug`) to `impl Debug for List`, which makes the
// impl depend on itself:
//     error[E0275]: overflow evaluating the requirement `Box<List>: Debug`
#![allow(dead_code)]

use educe::Educe;

mod std_derive {
    // the same shapes with the std derive: compile and print fine
    #[derive(Debug)]
    pub enum List {
        Nil,
        Cons(u8, Box<List>),
    }

    #[derive(Debug)]
    pub struct Node {
        pub v:    u8,
        pub next: Option<Box<Node>>,
    }
}

#[derive(Educe)]
#[educe(Debug)]
pub enum List {
    Nil,
    Cons(u8, Box<List>),
}

#[derive(Educe)]
#[educe(Debug)]
pub struct Node {
    pub v:    u8,
    pub next: Option<Box<Node>>,
}

#[test]
fn recursive_enum_like_derive() {
    let e = List::Cons(1, Box::new(List::Cons(2, Box::new(List::Nil))));
    let d = std_derive::List::Cons(1, Box::new(std_derive::List::Cons(2, Box::new(std_derive::List::Nil))));

    assert_eq!(format!("{:?}", e), format!("{:?}", d));
    assert_eq!(format!("{:#?}", e), format!("{:#?}", d));
}

#[test]
fn recursive_struct_like_derive() {
    let e = Node { v: 1, next: Some(Box::new(Node { v: 2, next: None })) };
    let d = std_derive::Node { v: 1, next: Some(Box::new(std_derive::Node { v: 2, next: None })) };

    assert_eq!(format!("{:?}", e), format!("{:?}", d));
    assert_eq!(format!("{:#?}", e), format!("{:#?}", d));
}
