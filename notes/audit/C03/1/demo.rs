// C03 demo 1: a const generic parameter named `other` makes the educed
// PartialOrd / Ord impls fail to compile.
//
// Expected per the property: the struct below is legal Rust (std's
// #[derive(PartialOrd, Ord)] accepts it, only the `non_upper_case_globals` lint
// fires), educe accepts the attributes without any diagnostic, so the educed
// `cmp` / `partial_cmp` must exist and compare the single field `a`
// (cmp([1], [2]) == Less, partial_cmp == Some(cmp)).
//
// Observed: the generated `fn cmp(&self, other: &Self)` /
// `fn partial_cmp(&self, other: &Self)` use the plain identifier `other` as the
// parameter pattern. Inside `impl<const other: usize> ...` that identifier resolves
// to the const parameter, so rustc treats the parameter as a constant pattern
// and the whole test file fails to compile (E0308 / E0610).
#![allow(dead_code, non_upper_case_globals)]

use std::cmp::Ordering;

use educe::Educe;

// Control: std's derive copes with the very same shape.
#[derive(Debug, PartialEq, Eq, PartialOrd, Ord)]
struct StdBoth<const other: usize> {
    a: [u8; other],
}

#[derive(Debug, PartialEq, Eq, Educe)]
#[educe(PartialOrd, Ord)]
struct Both<const other: usize> {
    a: [u8; other],
}

#[derive(Debug, PartialEq, Educe)]
#[educe(PartialOrd)]
struct PartialOnly<const other: usize> {
    a: [f32; other],
}

#[derive(Debug, PartialEq, Eq, Educe)]
#[educe(PartialOrd, Ord)]
enum En<const other: usize> {
    V([u8; other]),
}

#[test]
fn const_param_named_other() {
    assert_eq!(StdBoth::<1> { a: [1] }.cmp(&StdBoth::<1> { a: [2] }), Ordering::Less);

    assert_eq!(Both::<1> { a: [1] }.cmp(&Both::<1> { a: [2] }), Ordering::Less);
    assert_eq!(Both::<1> { a: [1] }.partial_cmp(&Both::<1> { a: [2] }), Some(Ordering::Less));
    assert_eq!(
        PartialOnly::<1> { a: [f32::NAN] }.partial_cmp(&PartialOnly::<1> { a: [2.0] }),
        None
    );
    assert_eq!(En::<1>::V([3]).cmp(&En::<1>::V([2])), Ordering::Greater);
}
