// C03 demo 2: a self-referential (recursive) struct / enum cannot educe
// PartialOrd or Ord with the default (automatic) bounds.
//
// Expected per the property: `List` is an ordinary legal struct with two
// non-ignored fields; educe accepts `#[educe(PartialOrd, Ord)]` on it without a
// diagnostic, so `cmp` must compare `v` first and `next` second
// (lexicographic in declaration order), and partial_cmp == Some(cmp).
// std's #[derive(PartialOrd, Ord)] handles the same type (control below).
//
// Observed: the educed impls carry `where u8: Ord, Option<Box<List>>: Ord, Self: Eq`
// (one predicate per field *type*). Proving `Option<Box<List>>: Ord` needs
// `List: Ord`, which is the impl being defined -> rustc reports
// E0275 "overflow evaluating the requirement `Box<List>: Ord`" and the test
// file does not compile. The same happens for PartialOrd alone and for enums.
#![allow(dead_code)]

use std::cmp::Ordering;

use educe::Educe;

// Control: std's derive accepts the recursive shape.
#[derive(Debug, PartialEq, Eq, PartialOrd, Ord)]
struct StdList {
    v:    u8,
    next: Option<Box<StdList>>,
}

#[derive(Debug, PartialEq, Eq, Educe)]
#[educe(PartialOrd, Ord)]
struct List {
    v:    u8,
    next: Option<Box<List>>,
}

#[derive(Debug, PartialEq, Educe)]
#[educe(PartialOrd)]
enum Tree {
    Leaf(f32),
    Node(Box<Tree>, Box<Tree>),
}

#[test]
fn recursive_types() {
    let a = StdList { v: 1, next: None };
    let b = StdList { v: 1, next: Some(Box::new(StdList { v: 0, next: None })) };
    assert_eq!(a.cmp(&b), Ordering::Less);

    let a = List { v: 1, next: None };
    let b = List { v: 1, next: Some(Box::new(List { v: 0, next: None })) };
    let c = List { v: 0, next: Some(Box::new(List { v: 9, next: None })) };
    assert_eq!(a.cmp(&b), Ordering::Less);
    assert_eq!(a.partial_cmp(&b), Some(Ordering::Less));
    assert_eq!(c.cmp(&a), Ordering::Less); // `v` decides before `next`

    let l = |x| Box::new(Tree::Leaf(x));
    assert_eq!(Tree::Node(l(1.0), l(f32::NAN)).partial_cmp(&Tree::Node(l(2.0), l(0.0))), Some(Ordering::Less));
    assert_eq!(Tree::Node(l(1.0), l(f32::NAN)).partial_cmp(&Tree::Node(l(1.0), l(0.0))), None);
}
