// C03 demo 3: `#[repr(packed)]` structs cannot educe PartialOrd / Ord.
//
// Expected per the property: `Packed` is a legal struct with two non-ignored
// fields; educe accepts `#[educe(PartialOrd, Ord)]` (and rank attributes) on it
// without a diagnostic, so `cmp` must compare `b` (rank 0) before `a` (rank 1)
// and partial_cmp == Some(cmp). std's #[derive(PartialOrd, Ord)] accepts the
// same type because it copies the (Copy) fields out before comparing (control
// below).
//
// Observed: the generated body is
//     match ::core::cmp::Ord::cmp(&self.b, &other.b) { .. }
// i.e. it takes references to the fields of a packed struct, which rustc
// rejects with E0793 "reference to field of packed struct is unaligned", so
// the test file does not compile. A custom `method(..)` does not help, the
// references are created before the method is called.
#![allow(dead_code)]

use std::cmp::Ordering;

use educe::Educe;

// Control: std's derive accepts a packed struct with Copy fields.
#[derive(Debug, Clone, Copy, PartialEq, Eq, PartialOrd, Ord)]
#[repr(C, packed)]
struct StdPacked {
    a: u8,
    b: u32,
}

#[derive(Clone, Copy, PartialEq, Eq, Educe)]
#[educe(PartialOrd, Ord)]
#[repr(C, packed)]
struct Packed {
    #[educe(Ord(rank = 1))]
    a: u8,
    #[educe(Ord(rank = 0))]
    b: u32,
}

#[derive(Clone, Copy, PartialEq, Educe)]
#[educe(PartialOrd)]
#[repr(C, packed)]
struct PackedPartial {
    a: u8,
    b: f32,
}

#[test]
fn packed_structs() {
    assert_eq!(StdPacked { a: 1, b: 2 }.cmp(&StdPacked { a: 1, b: 3 }), Ordering::Less);

    // `b` has the lower rank, so it decides first.
    assert!(Packed { a: 0, b: 3 }.cmp(&Packed { a: 1, b: 2 }) == Ordering::Greater);
    assert!(Packed { a: 0, b: 3 }.partial_cmp(&Packed { a: 1, b: 2 }) == Some(Ordering::Greater));
    assert!(Packed { a: 0, b: 3 }.cmp(&Packed { a: 1, b: 3 }) == Ordering::Less);

    assert!(PackedPartial { a: 1, b: f32::NAN }.partial_cmp(&PackedPartial { a: 1, b: 0.0 }) == None);
    assert!(
        PackedPartial { a: 0, b: f32::NAN }.partial_cmp(&PackedPartial { a: 1, b: 0.0 })
            == Some(Ordering::Less)
    );
}
