// Violated clause: "every field set to its own `= value` (bare literals converted with Into when
// the field type is not the literal's natural type)".
//
// A suffixed literal has an unambiguous natural type (`1u8` is a u8, `1.5f32` is an f32).  When the
// field type is a *different* primitive number type, the property says the literal has to be
// converted with Into - and `u16: From<u8>`, `u64: From<u8>`, `i32: From<u8>`, `f64: From<f32>`
// all exist, so `Into::into(1u8)` would compile and give the designated value.
//
// EXPECTED (per the property): this file compiles and every assertion passes.
// ACTUAL: educe pastes the literal unconverted (`f: 1u8` for a u16 field), so the generated
//         `Default` impl does not compile:  error[E0308]: mismatched types, expected `u16`, found `u8`.
//
// Control: the same literals on non-primitive targets (`Wrapper`, `Option<u8>`) ARE converted with
// Into and work, see `Control` below - so the conversion is only lost when the field type's name
// is one of the 12 integer / 2 float primitive names.
#![cfg(feature = "Default")]
#![allow(dead_code)]

use educe::Educe;

#[derive(Debug, PartialEq)]
struct Wrapper(u8);

impl From<u8> for Wrapper {
    fn from(v: u8) -> Self {
        Wrapper(v)
    }
}

#[derive(Educe)]
#[educe(Default)]
struct Control {
    #[educe(Default = 7u8)]
    a: Wrapper,
    #[educe(Default = 7u8)]
    b: Option<u8>,
}

#[derive(Educe)]
#[educe(Default(new))]
struct IntWiden {
    #[educe(Default = 1u8)]
    a: u16,
    #[educe(Default(expression = 2u8))]
    b: u64,
    #[educe(Default(expr(3u8)))]
    c: i32,
}

#[derive(Educe)]
#[educe(Default)]
enum FloatWiden {
    Unit,
    #[educe(Default)]
    Tuple(#[educe(Default = 1.5f32)] f64),
}

#[derive(Educe)]
#[educe(Default)]
union UnionWiden {
    a: u8,
    #[educe(Default = 9u16)]
    b: u32,
}

#[test]
fn control_is_converted_with_into() {
    let c = Control::default();
    assert_eq!(c.a, Wrapper(7));
    assert_eq!(c.b, Some(7));
}

#[test]
fn suffixed_int_literal_on_wider_int_field() {
    let s = IntWiden::default();
    assert_eq!((s.a, s.b, s.c), (1u16, 2u64, 3i32));
    let n = IntWiden::new();
    assert_eq!((n.a, n.b, n.c), (1u16, 2u64, 3i32));
}

#[test]
fn suffixed_float_literal_on_f64_field() {
    match FloatWiden::default() {
        FloatWiden::Tuple(v) => assert_eq!(v, 1.5f64),
        FloatWiden::Unit => panic!("wrong variant"),
    }
}

#[test]
fn suffixed_int_literal_on_union_field() {
    assert_eq!(unsafe { UnionWiden::default().b }, 9u32);
}
