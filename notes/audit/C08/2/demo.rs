// Violated clause: "every field set to its own `expression`/`= value` (bare literals converted with
// Into when the field type is not the literal's natural type)", quantified over "all assignments of
// per-field expressions in EVERY SPELLING (= lit, expression = e, expr(e))".
//
// The three documented spellings are supposed to be interchangeable.  For a negative number literal
// they are not: `= -1` and `expression = -1` / `expr = -1` are recognised as a bare literal and
// converted with Into (so they work on an `f64`, `i64`-from-wrapper, ... field), but the list spelling
// `expr(-1)` / `expression(-1)` is NOT recognised as a literal and is pasted unconverted.
//
// EXPECTED (per the property): this file compiles; all four structs default to a == -1.0, w == W(-1).
// ACTUAL: `ListSpelling` does not compile:
//     error[E0308]: mismatched types  expected `f64`, found integer      (for `expr(-1)`)
//     error[E0308]: mismatched types  expected `W`, found integer        (for `expression(-1)`)
// while `EqSpelling`, `ExpressionEqSpelling` and `ExprEqSpelling`, which differ only in the spelling of
// the very same attribute, compile and produce -1.0 / W(-1).
#![cfg(feature = "Default")]
#![allow(dead_code)]

use educe::Educe;

#[derive(Debug, PartialEq)]
struct W(i32);

impl From<i32> for W {
    fn from(v: i32) -> Self {
        W(v)
    }
}

#[derive(Educe)]
#[educe(Default)]
struct EqSpelling {
    #[educe(Default = -1)]
    a: f64,
    #[educe(Default = -1)]
    w: W,
}

#[derive(Educe)]
#[educe(Default)]
struct ExpressionEqSpelling {
    #[educe(Default(expression = -1))]
    a: f64,
    #[educe(Default(expression = -1))]
    w: W,
}

#[derive(Educe)]
#[educe(Default)]
struct ExprEqSpelling {
    #[educe(Default(expr = -1))]
    a: f64,
    #[educe(Default(expr = -1))]
    w: W,
}

// identical meaning, list spelling - this is the one that breaks
#[derive(Educe)]
#[educe(Default)]
struct ListSpelling {
    #[educe(Default(expr(-1)))]
    a: f64,
    #[educe(Default(expression(-1)))]
    w: W,
}

// the list spelling is fine for a non-negative literal, so it is the sign that matters
#[derive(Educe)]
#[educe(Default)]
struct ListSpellingPositive {
    #[educe(Default(expr(1)))]
    a: f64,
    #[educe(Default(expression(1)))]
    w: W,
}

#[test]
fn all_spellings_agree() {
    assert_eq!((EqSpelling::default().a, EqSpelling::default().w), (-1.0, W(-1)));
    assert_eq!((ExpressionEqSpelling::default().a, ExpressionEqSpelling::default().w), (-1.0, W(-1)));
    assert_eq!((ExprEqSpelling::default().a, ExprEqSpelling::default().w), (-1.0, W(-1)));
    assert_eq!((ListSpelling::default().a, ListSpelling::default().w), (-1.0, W(-1)));
    assert_eq!((ListSpellingPositive::default().a, ListSpellingPositive::default().w), (1.0, W(1)));
}
