// Violated clause: "every field set to its own `= value` (bare literals converted with Into when the
// field type is NOT the literal's natural type)" - i.e. when the field type IS the literal's natural
// type (an unsuffixed integer literal on a `u64` field) the literal is used as it is.
//
// educe decides "is the field type the literal's natural type" by pattern-matching the syntax of the
// field type: it must be a bare `Type::Path` whose token string is exactly `u64`.  The very same type
// written in another legal way is not recognised:
//   * `$t:ty` substituted by macro_rules (arrives as `Type::Group` - a None-delimited group),
//   * `::core::primitive::u64` (the hygienic spelling macros are supposed to use),
//   * `(u64)`.
// educe then wraps the literal in `::core::convert::Into::into(1)`, the integer variable cannot be
// inferred (u8/u16/u32/u64 all convert into u64), falls back to i32, and the expansion fails with
//     error[E0277]: the trait bound `u64: From<i32>` is not satisfied
//
// EXPECTED (per the property): this file compiles, every `f` defaults to 1.
// ACTUAL: `ViaMacro`, `ViaPrimitivePath` and `ViaParen` do not compile; `Direct` (identical definition,
//         type spelled `u64`) does.
#![cfg(feature = "Default")]
#![allow(dead_code, unused_parens)]

use educe::Educe;

#[derive(Educe)]
#[educe(Default)]
struct Direct {
    #[educe(Default = 1)]
    f: u64,
}

macro_rules! with_default_one {
    ($name:ident, $t:ty) => {
        #[derive(Educe)]
        #[educe(Default(new))]
        struct $name {
            #[educe(Default = 1)]
            f: $t,
        }
    };
}

with_default_one!(ViaMacro, u64);

#[derive(Educe)]
#[educe(Default)]
struct ViaPrimitivePath {
    #[educe(Default = 1)]
    f: ::core::primitive::u64,
}

#[derive(Educe)]
#[educe(Default)]
enum ViaParen {
    Other,
    #[educe(Default)]
    V(#[educe(Default(expr(1)))] (u64)),
}

#[test]
fn direct() {
    assert_eq!(Direct::default().f, 1u64);
}

#[test]
fn via_macro_rules_ty_fragment() {
    assert_eq!(ViaMacro::default().f, 1u64);
    assert_eq!(ViaMacro::new().f, 1u64);
}

#[test]
fn via_primitive_path() {
    assert_eq!(ViaPrimitivePath::default().f, 1u64);
}

#[test]
fn via_parenthesised_type() {
    match ViaParen::default() {
        ViaParen::V(v) => assert_eq!(v, 1u64),
        ViaParen::Other => panic!("wrong variant"),
    }
}
