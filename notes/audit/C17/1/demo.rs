// Property (C17, totality): for any item a user can write under #[derive(Educe)] the macro
// terminates and either produces items or reports a diagnostic carrying a span; it never panics.
//
// EXPECTED: both structs below are ordinary, legal derive inputs (they are produced by a
// `macro_rules!` wrapper, which is how `$crate::..` paths and `$t:ty` fragments reach a derive).
// educe should generate `impl Into<Foo> for ViaDollarCrate` / `impl Into<&'static (dyn Debug + Send)>
// for ViaTyFragment` (or, at worst, refuse with a spanned diagnostic).
//
// ACTUAL: this file does not compile on the unmodified tree; rustc reports
//     error: proc-macro derive panicked
//     help: message: called `Result::unwrap()` on an `Err` value: Error("expected one of: `for`, parentheses, ...")
//     help: message: called `Result::unwrap()` on an `Err` value: Error("expected `,`")
// i.e. the macro panics instead of producing items or a diagnostic.
#![allow(dead_code)]

use core::fmt::Debug;

use educe::Educe;

pub struct Foo(pub u8);

// (a) the Into target is written with `$crate::` (the hygienic way to name a type from a macro)
macro_rules! make_wrapper {
    ($name:ident) => {
        #[derive(Educe)]
        #[educe(Into($crate::Foo))]
        pub struct $name {
            f: $crate::Foo,
        }
    };
}

make_wrapper!(ViaDollarCrate);

// (b) the Into target contains a `$t:ty` fragment (an invisible group) whose content has a `+`
macro_rules! make_ref_wrapper {
    ($name:ident, $t:ty) => {
        #[derive(Educe)]
        #[educe(Into(&'static $t))]
        pub struct $name {
            f: &'static $t,
        }
    };
}

make_ref_wrapper!(ViaTyFragment, dyn Debug + Send);

#[test]
fn into_dollar_crate_path() {
    let f: Foo = ViaDollarCrate {
        f: Foo(7)
    }
    .into();

    assert_eq!(7, f.0);
}

#[test]
fn into_ty_fragment() {
    let f: &'static (dyn Debug + Send) = ViaTyFragment {
        f: &1u8
    }
    .into();

    assert_eq!("1", format!("{f:?}"));
}
