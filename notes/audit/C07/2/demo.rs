// Property clause: "x.clone() is ... every field produced by its custom method ..." and
// "After a.clone_from(&b) ... a is indistinguishable from b.clone()" - quantified over all
// "method assignments".
//
// Expected: `#[educe(Clone(method(path)))]` works for every function path, whatever the function is
// called.
//
// Actual: the path is pasted verbatim into the body of the generated
// `fn clone_from(&mut self, source: &Self)`; a function whose name equals a local name of the
// generated code is shadowed by that local.  A clone function that is simply called `source`
// (struct and enum alike) makes the generated `clone_from` call the *parameter* `source`:
//
//     error[E0618]: expected function, found `&Struct`
//
// so this file does not compile on the unmodified tree (the failure IS the demonstration).
// In enums the tuple-variant bindings `_0`, `_1`, .. / `__0`, `__1`, .. and the named-variant bindings
// `_s_<field>` / `_d_<field>` capture the path in the same way, in `clone` as well as `clone_from`
// (see README.md for a variant of this that compiles and silently calls the wrong function).

#![allow(dead_code)]

use educe::Educe;

#[derive(Debug, PartialEq)]
pub struct Handle(u32);

// a perfectly ordinary name for "clone the handle of the source"
fn source(h: &Handle) -> Handle {
    Handle(h.0 + 1)
}

#[derive(Educe, Debug, PartialEq)]
#[educe(Clone)]
pub struct Struct {
    #[educe(Clone(method(source)))]
    h: Handle,
    n: String,
}

#[derive(Educe, Debug, PartialEq)]
#[educe(Clone)]
pub enum Enum {
    Unit,
    Tuple(#[educe(Clone(method(source)))] Handle, String),
    Named {
        #[educe(Clone(method(source)))]
        h: Handle,
    },
}

#[test]
fn struct_method_called_source() {
    let b = Struct {
        h: Handle(1), n: "b".into()
    };
    assert_eq!(b.clone(), Struct {
        h: Handle(2), n: "b".into()
    });

    let mut a = Struct {
        h: Handle(7), n: "a".into()
    };
    a.clone_from(&b);
    assert_eq!(a, b.clone());
}

#[test]
fn enum_method_called_source() {
    let b = Enum::Tuple(Handle(1), "b".into());
    assert_eq!(b.clone(), Enum::Tuple(Handle(2), "b".into()));

    for mut a in [Enum::Unit, Enum::Tuple(Handle(7), "a".into()), Enum::Named {
        h: Handle(9)
    }] {
        a.clone_from(&b);
        assert_eq!(a, b.clone());
    }
}
