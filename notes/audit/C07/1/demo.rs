// Property clause: "x.clone() is the same variant as x with every field produced by ... the field
// type's own Clone::clone" -- quantified over ALL struct/enum definitions.
//
// Expected: a plain `#[educe(Clone)]` on a self-referential (recursive) type - the classic linked
// list / tree - yields a working `Clone` impl, exactly like `#[derive(Clone)]` does.
//
// Actual: educe's automatic bound puts every *field type* into the where clause of the impl
// (`impl Clone for Node where u8: Clone, Option<Box<Node>>: Clone`).  For a recursive type the
// predicate `Option<Box<Node>>: Clone` needs `Node: Clone`, which is the impl being defined, whose
// where clause needs `Option<Box<Node>>: Clone` again ... rustc gives up with
// `error[E0275]: overflow evaluating the requirement `Box<Node>: Clone``.
// So this file does not compile on the unmodified tree (the failure IS the demonstration).
// The same happens for generic recursive types (then the error appears at the first `.clone()` call)
// and for enums (`enum List<T> { Nil, Cons(T, Box<List<T>>) }`), and with `Copy` irrelevant.

#![allow(dead_code)]

use educe::Educe;

// non-generic: fails at the impl itself
#[derive(Educe, Debug, PartialEq)]
#[educe(Clone)]
pub struct Node {
    v:    u8,
    next: Option<Box<Node>>,
}

// generic struct: impl is accepted, but `GNode<i32>: Clone` can never be proven
#[derive(Educe, Debug, PartialEq)]
#[educe(Clone)]
pub struct GNode<T> {
    v:    T,
    next: Option<Box<GNode<T>>>,
}

// generic enum
#[derive(Educe, Debug, PartialEq)]
#[educe(Clone)]
pub enum List<T> {
    Nil,
    Cons(T, Box<List<T>>),
}

#[test]
fn recursive_struct_is_clone() {
    let n = Node {
        v: 1, next: Some(Box::new(Node {
            v: 2, next: None
        }))
    };
    assert_eq!(n.clone(), n);
}

#[test]
fn recursive_generic_struct_is_clone() {
    let n = GNode {
        v: 1, next: Some(Box::new(GNode {
            v: 2, next: None
        }))
    };
    assert_eq!(n.clone(), n);

    let mut m = GNode {
        v: 9, next: None
    };
    m.clone_from(&n);
    assert_eq!(m, n);
}

#[test]
fn recursive_generic_enum_is_clone() {
    let l = List::Cons(1, Box::new(List::Cons(2, Box::new(List::Nil))));
    assert_eq!(l.clone(), l);

    let mut m = List::Nil;
    m.clone_from(&l);
    assert_eq!(m, l);
}
