// Property clause: "x.clone() is ... every field produced by ... the field type's own Clone::clone,
// applied exactly once to the corresponding field of x" - for all struct definitions; the task
// explicitly lists `#[repr]` among the shapes.
//
// Expected: `#[educe(Clone)]` on a `#[repr(packed)]` struct (without Copy being educed) gives a
// working Clone impl, as `#[derive(Clone)]` does for the very same definition (std copies each
// field out of the packed struct before cloning it).
//
// Actual: the generated code takes references to the fields in place
// (`::core::clone::Clone::clone(&self.b)`, `::core::clone::Clone::clone_from(&mut self.b, &source.b)`),
// which is rejected for packed structs:
//
//     error[E0793]: reference to field of packed struct is unaligned
//
// so this file does not compile on the unmodified tree (the failure IS the demonstration).
// With `#[educe(Copy, Clone)]` the same struct is accepted (clone is `*self`).

#![allow(dead_code)]

use educe::Educe;

// control: std's derive accepts exactly this definition
#[derive(Clone)]
#[repr(C, packed)]
pub struct StdPacked {
    a: u8,
    b: u32,
}

#[derive(Educe)]
#[educe(Clone)]
#[repr(C, packed)]
pub struct Packed {
    a: u8,
    b: u32,
}

#[test]
fn packed_struct_is_clone() {
    let s = StdPacked {
        a: 1, b: 2
    };
    let t = s.clone();
    assert_eq!(({ t.a }, { t.b }), (1, 2));

    let x = Packed {
        a: 1, b: 2
    };
    let y = x.clone();
    assert_eq!(({ y.a }, { y.b }), (1, 2));

    let mut z = Packed {
        a: 7, b: 8
    };
    z.clone_from(&x);
    assert_eq!(({ z.a }, { z.b }), (1, 2));
}
