// Not a cargo test: expand it with
//   cd /tmp/wt/C16h && cargo build --offline
//   RUSTC_BOOTSTRAP=1 rustc --edition 2021 -Zunpretty=expanded \
//       --extern educe=target/debug/libeduce.so _found/1/expand_me.rs
// (`cargo build` builds educe with its default features, i.e. syn WITHOUT "full"; under
// `cargo test` the dev-dependency `syn = { features = ["full"] }` is unified into the macro's syn
// and the `{ .. }` const-argument cases P/Q/O1/O2/U1/U2 stop differing, the type-macro cases
// M1/M2/MO1/MO2/MU1/MU2 still differ.)
#![allow(dead_code)]
use educe::Educe;

macro_rules! ty { ($t:ty) => { $t }; }
pub struct A<const N: usize>(pub u32);

// ---- which field is converted -------------------------------------------------------------
#[derive(Educe)]
#[educe(Into(A<{1+1}>))]
struct P { a: A<{1+1}>, b: A<{ 1 + 1 }> }

#[derive(Educe)]
#[educe(Into(A<{ 1 + 1 }>))]
struct Q { a: A<{1+1}>, b: A<{ 1 + 1 }> }

#[derive(Educe)]
#[educe(Into(ty!(Vec<u8>)))]
struct M1 { a: ty!(Vec<u8>), b: ty!(Vec < u8 >) }

#[derive(Educe)]
#[educe(Into(ty!(Vec < u8 >)))]
struct M2 { a: ty!(Vec<u8>), b: ty!(Vec < u8 >) }

// ---- order of the emitted impl items ------------------------------------------------------
#[derive(Educe)]
#[educe(Into(A<{1+1}>), Into(A<{1*1}>))]
struct O1 { a: A<{1+1}>, b: A<{1*1}> }

#[derive(Educe)]
#[educe(Into(A<{1 + 1}>), Into(A<{1*1}>))]
struct O2 { a: A<{1 + 1}>, b: A<{1*1}> }

#[derive(Educe)]
#[educe(Into(ty!(Vec<u8>)), Into(ty!(Vec<u16>)))]
struct MO1 { a: ty!(Vec<u8>), b: ty!(Vec<u16>) }

#[derive(Educe)]
#[educe(Into(ty!(Vec <u8>)), Into(ty!(Vec<u16>)))]
struct MO2 { a: ty!(Vec <u8>), b: ty!(Vec<u16>) }

// ---- body and where clause (single field) -------------------------------------------------
#[derive(Educe)]
#[educe(Into(A<{1+1}>))]
struct U1 { a: A<{1+1}> }

#[derive(Educe)]
#[educe(Into(A<{1+1}>))]
struct U2 { a: A<{1 + 1}> }

#[derive(Educe)]
#[educe(Into(ty!(Vec<u8>)))]
struct MU1 { a: ty!(Vec<u8>) }

#[derive(Educe)]
#[educe(Into(ty!(Vec<u8>)))]
struct MU2 { a: ty!(Vec <u8>) }

// ---- accepted / refused -------------------------------------------------------------------
#[derive(Educe)]
#[educe(Into(ty!(Vec<u8>)))]
struct R1 { a: ty!(Vec<u8>), b: u16 }

#[derive(Educe)]
#[educe(Into(ty!(Vec<u8>)))]
struct R2 { a: ty!(Vec < u8 >), b: u16 }

fn main() {}
