// Demo for the "Expansion is deterministic" property, second sentence:
//
//     "The output depends on nothing but the input tokens and the enabled features."
//
// The two types M1 / M2 below hand `#[derive(Educe)]` the SAME tokens (same idents, literals,
// punctuation characters, punctuation spacing flags and delimiters - checked with the token
// dumper in token_dump.rs); they differ only in the name of the struct and in insignificant
// source WHITESPACE inside the `Into(..)` attribute (`Vec<u8>` / `Vec < u8 >`).
//
// EXPECTED per the property: M1 and M2 expand to the same items (modulo the struct name): either
// both are refused as ambiguous (two candidate fields of the target type and no field-level
// `#[educe(Into(..))]`), or both convert the same field.
//
// OBSERVED: educe compares types by `TokenStream::to_string()` (`HashType`), and inside rustc that
// string reproduces the source whitespace of every token syn keeps verbatim (the body of a type
// macro; a `{ .. }` const argument when syn is built without "full", which is educe's default).
// So the whitespace decides which field `into()` returns, whether `Into::into` + a where clause
// is emitted, and in which order the `impl Into<..>` items are emitted.
//
// This file holds the run-time observable case (type macro; works with any feature set that has
// "Into"). The other manifestations are in expand_me.rs next to this file (see README.md).

#![cfg(feature = "Into")]
#![allow(dead_code)]

use educe::Educe;

macro_rules! ty {
    ($t:ty) => { $t };
}

// type macro: its body is kept verbatim by syn regardless of syn's features

#[rustfmt::skip]
#[derive(Educe)]
#[educe(Into(ty!(Vec<u8>)))]
struct M1 { a: ty!(Vec<u8>), b: ty!(Vec < u8 >) }

#[rustfmt::skip]
#[derive(Educe)]
#[educe(Into(ty!(Vec < u8 >)))]
struct M2 { a: ty!(Vec<u8>), b: ty!(Vec < u8 >) }

#[test]
fn same_tokens_same_field_type_macro() {
    let m1: Vec<u8> = M1 { a: vec![1], b: vec![2] }.into();
    let m2: Vec<u8> = M2 { a: vec![1], b: vec![2] }.into();

    // M1 and M2 are token-for-token the same input, so they must convert the same field.
    // Observed: m1 == [1] (field `a`), m2 == [2] (field `b`).
    assert_eq!(m1, m2);
}
