extern crate proc_macro;
use proc_macro::{TokenStream, TokenTree};
fn dump(ts: TokenStream, out: &mut String) {
    for tt in ts {
        match tt {
            TokenTree::Group(g) => { out.push_str(&format!("G{:?}[", g.delimiter())); dump(g.stream(), out); out.push_str("] "); }
            TokenTree::Ident(i) => out.push_str(&format!("I({}) ", i)),
            TokenTree::Punct(p) => out.push_str(&format!("P({},{:?}) ", p.as_char(), p.spacing())),
            TokenTree::Literal(l) => out.push_str(&format!("L({}) ", l)),
        }
    }
}
#[proc_macro_derive(Dump, attributes(educe))]
pub fn d(input: TokenStream) -> TokenStream {
    let mut s = String::new();
    dump(input, &mut s);
    eprintln!("{}", s);
    TokenStream::new()
}
