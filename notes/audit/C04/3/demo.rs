// Property C04: "This holds for ... any discriminant values the enum may legally declare".
//
// BORDERLINE / same root cause as _found/1 (discriminants are modelled as i128 at expansion time).
// An EXPLICIT discriminant above i128::MAX in a `#[repr(u128)]` enum is legal Rust (repr128 is
// stable since 1.89), but educe refuses the enum:
//
//     error: number too large to fit in target type
//
// EXPECTED (per the property): the enum is accepted and Lo < Hi.
// ACTUAL:   this file does not compile (the derive emits a compile error, so no Ord/PartialOrd
//           impl exists).
#![allow(dead_code)]

use core::cmp::Ordering;

use educe::Educe;

#[derive(Educe, Debug)]
#[educe(PartialEq, Eq, PartialOrd, Ord)]
#[repr(u128)]
enum Flags {
    Lo = 1,
    Hi = 0x8000_0000_0000_0000_0000_0000_0000_0000, // 2^127, the top bit of a u128
}

#[test]
fn top_bit_discriminant() {
    assert_eq!(Flags::Lo.cmp(&Flags::Hi), Ordering::Less);
}
