// Property C04: "Enum variants order by declared discriminant ... any discriminant values the
// enum may legally declare".
//
// `#[repr(u128)]` enums (stable since Rust 1.89) may declare discriminants above i128::MAX.
// educe computes the discriminants at expansion time in an `i128` counter and advances the
// implicit discriminant with `saturating_add(1)`, so every implicit discriminant that follows
// `i128::MAX` is silently clamped to `i128::MAX`.
//
// EXPECTED (per the property): A < B < C because their discriminants are 2^127-1, 2^127, 2^127+1;
//           values of different variants never compare Equal.
// ACTUAL:   educe's Ord / PartialOrd say A == B == C (Ordering::Equal), and for variants with
//           payloads the comparison of two *different* variants falls through to `Equal` too.
#![allow(dead_code)]

use core::cmp::Ordering;

use educe::Educe;

#[derive(Educe, Debug)]
#[educe(PartialEq, Eq, PartialOrd, Ord)]
#[repr(u128)]
enum Big {
    A = 170141183460469231731687303715884105727, // i128::MAX
    B,                                           // 2^127   (legal for repr(u128))
    C,                                           // 2^127+1
}

#[derive(Educe, Debug)]
#[educe(PartialEq, PartialOrd)]
#[repr(u128)]
enum BigPayload {
    A(u8) = 170141183460469231731687303715884105727,
    B(u8),
}

#[test]
fn rustc_accepts_and_numbers_the_variants_as_declared() {
    // sanity: this part passes - the enum is legal and the real discriminants are distinct
    assert_eq!(Big::A as u128, i128::MAX as u128);
    assert_eq!(Big::B as u128, (i128::MAX as u128) + 1);
    assert_eq!(Big::C as u128, (i128::MAX as u128) + 2);
}

#[test]
fn ord_of_unit_variants_above_i128_max() {
    assert_eq!(Big::A.cmp(&Big::B), Ordering::Less); // educe: Equal
    assert_eq!(Big::B.cmp(&Big::C), Ordering::Less); // educe: Equal
    assert_eq!(Big::C.partial_cmp(&Big::A), Some(Ordering::Greater)); // educe: Some(Equal)
}

#[test]
fn partial_ord_of_payload_variants_above_i128_max() {
    // different variants: must be decided by the discriminant alone (A < B), whatever the payload
    assert_eq!(BigPayload::A(9).partial_cmp(&BigPayload::B(0)), Some(Ordering::Less)); // educe: Some(Equal)
    assert_eq!(BigPayload::B(0).partial_cmp(&BigPayload::A(9)), Some(Ordering::Greater)); // educe: Some(Equal)
    // ... and PartialEq (which matches on the variants) disagrees with PartialOrd:
    assert!(BigPayload::A(9) != BigPayload::B(0));
}
