// Property C04: "values of different variants compare according to the variants' discriminant
// values (explicit `= n` where written ...) ... with or without #[repr(...)] ... any discriminant
// values the enum may legally declare".
//
// `overflowing_literals` is an ordinary (deny-by-default) lint. With `#[allow(overflowing_literals)]`
// rustc accepts a discriminant literal that does not fit the repr type and WRAPS it to that type
// (`0xFF` in a `#[repr(i8)]` enum is the discriminant -1; `256` in a `#[repr(u8)]` enum is 0).
// educe re-parses the literal text into an i128 and never looks at the repr type, so it orders
// the variants by the unwrapped number (255, 256) instead of the discriminant the enum really has.
//
// EXPECTED (per the property): Wrap::A (discriminant -1) < Wrap::B (discriminant 0);
//                              WrapU::A (discriminant 0) < WrapU::B (discriminant 1).
// ACTUAL:   educe says Wrap::A > Wrap::B and WrapU::A > WrapU::B.
#![allow(dead_code)]

use core::cmp::Ordering;

use educe::Educe;

#[allow(overflowing_literals)]
#[derive(Educe, Debug, Clone, Copy)]
#[educe(PartialEq, Eq, PartialOrd, Ord)]
#[repr(i8)]
enum Wrap {
    A = 0xFF, // == -1i8
    B = 0,
}

#[allow(overflowing_literals)]
#[derive(Educe, Debug)]
#[educe(PartialEq, PartialOrd)]
#[repr(u8)]
enum WrapU {
    A(bool) = 256, // == 0u8
    B(bool) = 1,
}

impl WrapU {
    fn discriminant(&self) -> u8 {
        // documented way to read the discriminant of a primitive-repr enum with fields
        unsafe { *(self as *const Self as *const u8) }
    }
}

#[test]
fn the_declared_discriminants_are_the_wrapped_ones() {
    // sanity: passes
    assert_eq!(Wrap::A as i8, -1);
    assert_eq!(Wrap::B as i8, 0);
    assert_eq!(WrapU::A(true).discriminant(), 0);
    assert_eq!(WrapU::B(false).discriminant(), 1);
}

#[test]
fn ord_follows_the_discriminant_repr_i8() {
    assert_eq!((Wrap::A as i8).cmp(&(Wrap::B as i8)), Ordering::Less);
    assert_eq!(Wrap::A.cmp(&Wrap::B), Ordering::Less); // educe: Greater
    assert_eq!(Wrap::B.partial_cmp(&Wrap::A), Some(Ordering::Greater)); // educe: Some(Less)
}

#[test]
fn partial_ord_follows_the_discriminant_repr_u8() {
    assert_eq!(WrapU::A(true).partial_cmp(&WrapU::B(false)), Some(Ordering::Less)); // educe: Some(Greater)
}
