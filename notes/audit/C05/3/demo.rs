// Violation: `#[educe(Hash)]` (default bound) on a recursive type generates an impl that does
// not compile, although the input is perfectly legal, documented usage and educe emits no
// diagnostic. `#[derive(Hash)]` accepts all of these types.
//
// Expected (property is quantified over all struct/enum definitions): the impls exist and feed
//   the variant index and the non-ignored fields in declaration order, i.e. the tests below pass.
// Actual: this file does not compile:
//   error[E0275]: overflow evaluating the requirement `Box<List>: Hash`
//   error[E0275]: overflow evaluating the requirement `Box<Tree>: Hash`
//   error[E0275]: overflow evaluating the requirement `Vec<Dir>: Hash` 
// because educe adds `where <field type>: Hash` for every field type, including the ones that
// mention the type being defined.
#![cfg(feature = "Hash")]
#![allow(dead_code)]

use std::hash::{Hash, Hasher};

use educe::Educe;

#[derive(Default)]
struct Rec(Vec<Vec<u8>>);

impl Hasher for Rec {
    fn finish(&self) -> u64 {
        0
    }

    fn write(&mut self, b: &[u8]) {
        self.0.push(b.to_vec());
    }
}

fn rec<T: Hash + ?Sized>(t: &T) -> Vec<Vec<u8>> {
    let mut r = Rec::default();
    t.hash(&mut r);
    r.0
}

#[derive(Educe)]
#[educe(Hash)]
struct List {
    value: u8,
    next:  Option<Box<List>>,
}

#[derive(Educe)]
#[educe(Hash)]
enum Tree {
    Leaf(u8),
    Branch(Box<Tree>, Box<Tree>),
}

#[derive(Educe)]
#[educe(Hash)]
struct Dir {
    id:       u8,
    children: Vec<Dir>,
}

#[test]
fn list() {
    let l = List {
        value: 1, next: Some(Box::new(List {
            value: 2, next: None
        }))
    };

    // Option feeds its discriminant (isize), then the payload
    let some = 1isize.to_ne_bytes().to_vec();
    let none = 0isize.to_ne_bytes().to_vec();

    assert_eq!(rec(&l), vec![vec![1u8], some, vec![2u8], none]);
}

#[test]
fn tree() {
    let t = Tree::Branch(Box::new(Tree::Leaf(1)), Box::new(Tree::Leaf(2)));
    let i0 = 0usize.to_ne_bytes().to_vec();
    let i1 = 1usize.to_ne_bytes().to_vec();

    assert_eq!(rec(&t), vec![i1, i0.clone(), vec![1u8], i0, vec![2u8]]);
}

#[test]
fn dir() {
    let d = Dir {
        id: 1, children: vec![]
    };

    assert_eq!(rec(&d), vec![vec![1u8], 0usize.to_ne_bytes().to_vec()]);
}
