// Violation: `#[educe(Hash(method = <Type as Trait>::f))]` silently drops the `<Type as ..>`
// qualifier and calls `Trait::f` instead, so the field is NOT fed through the custom method the
// user named.
//
// Expected (property: "each [non-ignored field is] fed through its custom method"):
//   the generated code calls `<str as FieldHash>::feed(&self.name, state)` (the `&String`
//   argument deref-coerces to `&str`), i.e. the case-folding implementation, so "Ab" and "aB"
//   feed identical data `[b"ab"]`.
// Actual:
//   the generated code calls `FieldHash::feed(&self.name, state)`; `Self` is inferred from the
//   argument as `String`, so the *other* implementation (case-sensitive) runs. No diagnostic.
//   As a consequence `a == b` (case-insensitive PartialEq) no longer implies equal hash input.
#![cfg(all(feature = "Hash", feature = "PartialEq"))]
#![allow(dead_code)]

use std::hash::{Hash, Hasher};

use educe::Educe;

/// A Hasher that records exactly what is fed to it.
#[derive(Default)]
struct Rec(Vec<Vec<u8>>);

impl Hasher for Rec {
    fn finish(&self) -> u64 {
        0
    }

    fn write(&mut self, b: &[u8]) {
        self.0.push(b.to_vec());
    }
}

fn rec<T: Hash + ?Sized>(t: &T) -> Vec<Vec<u8>> {
    let mut r = Rec::default();
    t.hash(&mut r);
    r.0
}

trait FieldHash {
    fn feed<H: Hasher>(&self, state: &mut H);
}

/// case-folding
impl FieldHash for str {
    fn feed<H: Hasher>(&self, state: &mut H) {
        state.write(self.to_lowercase().as_bytes())
    }
}

/// case-sensitive
impl FieldHash for String {
    fn feed<H: Hasher>(&self, state: &mut H) {
        state.write(self.as_bytes())
    }
}

fn ci_eq(a: &String, b: &String) -> bool {
    a.to_lowercase() == b.to_lowercase()
}

#[derive(Educe)]
#[educe(Hash, PartialEq)]
struct S {
    #[educe(Hash(method = <str as FieldHash>::feed), PartialEq(method(ci_eq)))]
    name: String,
}

#[derive(Educe)]
#[educe(Hash, PartialEq)]
enum E {
    V {
        #[educe(Hash(method = <str as FieldHash>::feed), PartialEq(method(ci_eq)))]
        name: String,
    },
    T(#[educe(Hash(method = <str as FieldHash>::feed), PartialEq(method(ci_eq)))] String),
}

#[test]
fn struct_field_is_fed_through_the_named_method() {
    // what the method the user named feeds for this field
    let mut expected = Rec::default();
    <str as FieldHash>::feed(&String::from("Ab"), &mut expected);
    assert_eq!(expected.0, vec![b"ab".to_vec()]);

    assert_eq!(
        rec(&S {
            name: "Ab".into()
        }),
        expected.0
    );
}

#[test]
fn enum_fields_are_fed_through_the_named_method() {
    let idx0 = 0usize.to_ne_bytes().to_vec();
    let idx1 = 1usize.to_ne_bytes().to_vec();

    assert_eq!(
        rec(&E::V {
            name: "Ab".into()
        }),
        vec![idx0, b"ab".to_vec()]
    );
    assert_eq!(rec(&E::T("Ab".into())), vec![idx1, b"ab".to_vec()]);
}

#[test]
fn eq_implies_same_hash_input() {
    let a = S {
        name: "Ab".into()
    };
    let b = S {
        name: "aB".into()
    };

    assert!(a == b);
    assert_eq!(rec(&a), rec(&b));
}
