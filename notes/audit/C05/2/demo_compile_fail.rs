// Violation: the generated `fn hash<H: ::core::hash::Hasher>(&self, state: &mut H)` splices the
// user's `method` path into a scope where the names `state` (the hasher parameter) and `H` (the
// hasher type parameter) are already taken by educe. A documented, legal
// `#[educe(Hash(method(path)))]` whose path is `state`, or starts with / mentions a type called
// `H`, therefore makes the generated impl fail to compile.
//
// Expected (property is quantified over all definitions and method assignments, and educe
// emits no diagnostic for these inputs): the impls compile and the field is fed through the
// named function, i.e. every test below passes.
// Actual: this file does not compile:
//   error[E0618]: expected function, found `&mut H`            (method(state))
//   error[E0599]: no function or associated item named `feed` found for type parameter `H`
//                                                               (method(H::feed))
// (The variant of this clash that compiles and silently feeds wrong data is in demo.rs.)
#![cfg(feature = "Hash")]
#![allow(dead_code)]

use std::hash::{Hash, Hasher};

use educe::Educe;

#[derive(Default)]
struct Rec(Vec<Vec<u8>>);

impl Hasher for Rec {
    fn finish(&self) -> u64 {
        0
    }

    fn write(&mut self, b: &[u8]) {
        self.0.push(b.to_vec());
    }
}

fn rec<T: Hash + ?Sized>(t: &T) -> Vec<Vec<u8>> {
    let mut r = Rec::default();
    t.hash(&mut r);
    r.0
}

// 1. a hashing function that happens to be called `state`
mod a {
    use super::*;

    pub struct Machine {
        pub id: u8,
    }

    /// feeds the state of the machine
    pub fn state<S: Hasher>(m: &Machine, hasher: &mut S) {
        hasher.write_u8(m.id)
    }

    #[derive(Educe)]
    #[educe(Hash)]
    pub struct Job {
        #[educe(Hash(method(state)))]
        pub machine: Machine,
    }

    #[derive(Educe)]
    #[educe(Hash)]
    pub enum JobE {
        Run {
            #[educe(Hash(method(state)))]
            machine: Machine,
        },
    }
}

// 2. a helper type that happens to be called `H`
mod b {
    use super::*;

    /// "H" for helpers
    pub struct H;

    impl H {
        pub fn feed<S: Hasher>(v: &u8, hasher: &mut S) {
            hasher.write_u8(*v)
        }
    }

    #[derive(Educe)]
    #[educe(Hash)]
    pub struct Job {
        #[educe(Hash(method(H::feed)))]
        pub a: u8,
    }
}

#[test]
fn method_called_state() {
    assert_eq!(
        rec(&a::Job {
            machine: a::Machine {
                id: 7
            },
        }),
        vec![vec![7u8]]
    );
    assert_eq!(
        rec(&a::JobE::Run {
            machine: a::Machine {
                id: 7
            },
        }),
        vec![0usize.to_ne_bytes().to_vec(), vec![7u8]]
    );
}

#[test]
fn method_path_mentions_a_type_called_h() {
    assert_eq!(
        rec(&b::Job {
            a: 1
        }),
        vec![vec![1u8]]
    );
}
