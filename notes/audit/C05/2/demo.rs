// Violation: educe splices the user's `method` path into the body of
//     fn hash<H: ::core::hash::Hasher>(&self, state: &mut H) { .. }
// where the names `H` (hasher type parameter) and `state` (hasher argument) are educe's own.
// A `method` path that mentions a user type called `H` is therefore captured: `H` silently
// means "the hasher type" instead of the user's type.
//
// Expected (property: the fed data is a function of the variant and the non-ignored fields only,
//   each fed through its custom method; identical for all hashers):
//   `feed_tagged::<H, _>(&self.v, state)` with the user's `struct H`, so the data is
//   ["found_demo::H", [5]] whatever hasher is used.
// Actual: `H` resolves to the hasher type parameter, so the name of the *hasher* type is fed:
//   ["found_demo::RecA", [5]] with `RecA` and ["found_demo::RecB", [5]] with `RecB`. The same
//   value feeds different data to different hashers, and never the data the named method
//   instantiation would feed.
//
// demo_compile_fail.rs (next to this file) shows the non-silent variants of the same clash:
// `method(state)` and `method(H::feed)` make the generated impl fail to compile.
#![cfg(feature = "Hash")]
#![allow(dead_code)]

use std::hash::{Hash, Hasher};

use educe::Educe;

/// recording hashers
#[derive(Default)]
pub struct RecA(Vec<Vec<u8>>);
#[derive(Default)]
pub struct RecB(Vec<Vec<u8>>);

impl Hasher for RecA {
    fn finish(&self) -> u64 {
        0
    }

    fn write(&mut self, b: &[u8]) {
        self.0.push(b.to_vec());
    }
}

impl Hasher for RecB {
    fn finish(&self) -> u64 {
        0
    }

    fn write(&mut self, b: &[u8]) {
        self.0.push(b.to_vec());
    }
}

/// the user's marker type, which happens to be called `H`
pub struct H;

/// feeds a domain-separation tag chosen by the marker type `T` (its name), then the value
pub fn feed_tagged<T, S: Hasher>(v: &u8, hasher: &mut S) {
    hasher.write(::core::any::type_name::<T>().as_bytes());
    hasher.write_u8(*v);
}

#[derive(Educe)]
#[educe(Hash)]
pub struct Job {
    #[educe(Hash(method(feed_tagged::<H, _>)))]
    pub v: u8,
}

#[derive(Educe)]
#[educe(Hash)]
pub enum JobE {
    Run(#[educe(Hash(method(feed_tagged::<H, _>)))] u8),
}

#[test]
fn struct_field_is_fed_through_the_named_method() {
    let mut expected = RecA::default();
    feed_tagged::<H, _>(&5, &mut expected);
    assert_eq!(expected.0, vec![::core::any::type_name::<H>().as_bytes().to_vec(), vec![5u8]]);

    let mut a = RecA::default();
    Job {
        v: 5
    }
    .hash(&mut a);
    assert_eq!(a.0, expected.0);
}

#[test]
fn same_data_for_every_hasher() {
    let mut a = RecA::default();
    let mut b = RecB::default();
    Job {
        v: 5
    }
    .hash(&mut a);
    Job {
        v: 5
    }
    .hash(&mut b);
    assert_eq!(a.0, b.0);

    let mut a = RecA::default();
    let mut b = RecB::default();
    JobE::Run(5).hash(&mut a);
    JobE::Run(5).hash(&mut b);
    assert_eq!(a.0, b.0);
}
