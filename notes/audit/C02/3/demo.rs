// FINDING 3: a custom comparison method whose name coincides with a local name of the generated
// `eq` (the parameter `other`, or - in enums - the pattern bindings `_s_<field>`, `_o_<field>`,
// `_<n>`, `__<n>`) is shadowed, and the generated code does not compile.
//
// Expected per the property: `#[educe(PartialEq(method(other)))]` names a perfectly legal function
// `fn other(&u8, &u8) -> bool`; `a == b` must be "every non-ignored field is equal under its custom
// method (called with the left operand's field first)".
//
// Observed on the unmodified tree: this file does not compile,
//   error[E0618]: expected function, found `&S`
// because the expansion is `fn eq(&self, other: &Self) -> bool { if !other(&self.w, &other.w) { .. } }`
// - the user's path `other` resolves to the parameter, not to the function.
#![allow(dead_code)]

use educe::Educe;

// compares modulo 10; "left operand first" is irrelevant here, the name is what matters
fn other(a: &u8, b: &u8) -> bool {
    a % 10 == b % 10
}

// same idea for the bindings the enum expansion introduces for a tuple variant's field 0
fn _0(a: &u8, b: &u8) -> bool {
    a % 10 == b % 10
}

#[derive(Educe, Debug)]
#[educe(PartialEq)]
struct S {
    #[educe(PartialEq(method(other)))]
    w: u8,
}

#[derive(Educe, Debug)]
#[educe(PartialEq)]
enum E {
    A(#[educe(PartialEq(method(other)))] u8),
    B {
        #[educe(PartialEq(method = "other"))]
        w: u8,
    },
    C(#[educe(PartialEq(method(_0)))] u8),
}

#[test]
fn struct_uses_the_named_method() {
    assert!(S { w: 1 } == S { w: 11 });
    assert!(S { w: 1 } != S { w: 12 });
}

#[test]
fn enum_uses_the_named_method() {
    assert!(E::A(1) == E::A(11));
    assert!(E::A(1) != E::A(12));
    assert!(E::B { w: 1 } == E::B { w: 11 });
    assert!(E::B { w: 1 } != E::A(1));
    assert!(E::C(1) == E::C(21));
    assert!(E::C(1) != E::C(2));
}
