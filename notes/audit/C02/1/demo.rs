// FINDING 1: educed PartialEq on a (directly) recursive type does not compile.
//
// Expected per the property: `#[educe(PartialEq)]` is quantified over *all* struct/enum
// definitions; for `Tree` / `List<T>` below it must yield plain field-wise equality, exactly
// like `#[derive(PartialEq)]` from std does (see `StdTree`, which compiles and works).
//
// Observed on the unmodified tree: this file does not compile,
//   error[E0275]: overflow evaluating the requirement `Box<Tree>: PartialEq`
// because the default (`Bound::Auto`) where-clause repeats every compared field type verbatim
// (`where Box<Tree>: PartialEq`), which makes `Tree: PartialEq` depend on itself.
#![allow(dead_code)]

use educe::Educe;

// what std does with the very same definitions: compiles, field-wise equality
#[derive(PartialEq, Debug)]
enum StdTree {
    Leaf(u8),
    Node(Box<StdTree>, Box<StdTree>),
}

#[derive(Educe, Debug)]
#[educe(PartialEq)]
enum Tree {
    Leaf(u8),
    Node(Box<Tree>, Box<Tree>),
}

#[derive(Educe, Debug)]
#[educe(PartialEq)]
struct List<T> {
    head: T,
    tail: Option<Box<List<T>>>,
}

#[test]
fn std_reference_behaviour() {
    assert!(StdTree::Leaf(1) == StdTree::Leaf(1));
    assert!(
        StdTree::Node(Box::new(StdTree::Leaf(1)), Box::new(StdTree::Leaf(2))) != StdTree::Leaf(1)
    );
}

#[test]
fn recursive_enum_is_field_wise_equal() {
    let n = |a, b| Tree::Node(Box::new(Tree::Leaf(a)), Box::new(Tree::Leaf(b)));

    assert!(Tree::Leaf(1) == Tree::Leaf(1));
    assert!(Tree::Leaf(1) != Tree::Leaf(2));
    assert!(n(1, 2) == n(1, 2));
    assert!(n(1, 2) != n(1, 3));
    assert!(n(1, 2) != Tree::Leaf(1));
}

#[test]
fn recursive_generic_struct_is_field_wise_equal() {
    let l = |a: u8, b: u8| List {
        head: a,
        tail: Some(Box::new(List {
            head: b, tail: None
        })),
    };

    assert!(l(1, 2) == l(1, 2));
    assert!(l(1, 2) != l(1, 3));
    assert!(l(1, 2) != List {
        head: 1, tail: None
    });
}
