// FINDING 2: educed PartialEq on a `#[repr(packed)]` struct does not compile.
//
// Expected per the property: for every struct definition (the `#[repr]` attribute is not something
// educe may be picky about, and it emits no diagnostic of its own) `a == b` is field-wise equality.
// std's `#[derive(PartialEq)]` supports exactly this input (see `StdPacked`).
//
// Observed on the unmodified tree: this file does not compile,
//   error[E0793]: reference to field of packed struct is unaligned
// because the generated `eq` takes `&self.b` / `&other.b` of the packed fields.
#![allow(dead_code)]

use educe::Educe;

fn eq_u32(a: &u32, b: &u32) -> bool {
    a == b
}

// what std does with the very same definition: compiles, field-wise equality
#[derive(PartialEq, Clone, Copy)]
#[repr(C, packed)]
struct StdPacked {
    a: u8,
    b: u32,
}

#[derive(Educe, Clone, Copy)]
#[educe(PartialEq)]
#[repr(C, packed)]
struct Packed {
    a: u8,
    b: u32,
    #[educe(PartialEq(ignore))]
    c: u64,
}

// the `method` form has the same problem: the method is handed `&self.b`
#[derive(Educe, Clone, Copy)]
#[educe(PartialEq)]
#[repr(packed(2))]
struct PackedMethod {
    a: u8,
    #[educe(PartialEq(method(eq_u32)))]
    b: u32,
}

#[test]
fn std_reference_behaviour() {
    assert!(StdPacked { a: 1, b: 2 } == StdPacked { a: 1, b: 2 });
    assert!(StdPacked { a: 1, b: 2 } != StdPacked { a: 1, b: 3 });
}

#[test]
fn packed_struct_is_field_wise_equal() {
    assert!(Packed { a: 1, b: 2, c: 3 } == Packed { a: 1, b: 2, c: 4 });
    assert!(Packed { a: 1, b: 2, c: 3 } != Packed { a: 1, b: 3, c: 3 });
    assert!(Packed { a: 0, b: 2, c: 3 } != Packed { a: 1, b: 2, c: 3 });
}

#[test]
fn packed_struct_with_method_is_field_wise_equal() {
    assert!(PackedMethod { a: 1, b: 2 } == PackedMethod { a: 1, b: 2 });
    assert!(PackedMethod { a: 1, b: 2 } != PackedMethod { a: 1, b: 3 });
}
