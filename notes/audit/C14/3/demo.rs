//! Property C14 "Alternative attribute spellings are interchangeable" - clause "`p = v` and `p(v)`;
//! ... predicate values and their string-literal forms".
//!
//! NOTE: this one is a *refusal* (educe emits a diagnostic for one of the two spellings), not a
//! difference in generated code - weaker than findings 1 and 2.
//!
//! `bound(where_predicates)` is the documented primary spelling, `bound = "where_predicates"` its
//! string-literal form. A where predicate whose bounded type starts with `*` (a raw pointer type, e.g.
//! `*const T: Debug`) is accepted in the string form but refused in the token form, because the parser
//! of the token form takes a leading `*` for the `bound(*)` ("bound every type parameter") marker.
//!
//! EXPECTED: `ok_string_form` and `bad_token_form` expand to the same impl; file compiles, test passes.
//! ACTUAL: `error: unexpected token` pointing at `const` in `bound(*const T: fmt::Debug)`.
#![allow(dead_code)]

mod ok_string_form {
    use std::fmt;

    use educe::Educe;

    #[derive(Educe)]
    #[educe(Debug(bound = "*const T: fmt::Debug"))]
    pub struct S<T> {
        pub a: *const T,
    }
}

mod bad_token_form {
    use std::fmt;

    use educe::Educe;

    #[derive(Educe)]
    #[educe(Debug(bound(*const T: fmt::Debug)))]
    pub struct S<T> {
        pub a: *const T,
    }
}

struct NotDebug;

#[test]
fn both_spellings_work() {
    let a = ok_string_form::S::<NotDebug> {
        a: std::ptr::null()
    };
    let b = bad_token_form::S::<NotDebug> {
        a: std::ptr::null()
    };

    assert_eq!(format!("{:?}", a), format!("{:?}", b));
}
