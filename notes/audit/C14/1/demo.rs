//! Property C14 "Alternative attribute spellings are interchangeable".
//!
//! A default value that is a NEGATIVE LITERAL (`-1`, `-1.5`) is turned into different code
//! depending on which of the documented, supposedly equivalent spellings is used:
//!
//!   * `Default = -1` / `Default(expression = -1)` / `Default(expr = -1)` when the value is the LAST
//!     token of its list  ->  `::core::convert::Into::into(-1)`
//!   * `Default(expression(-1))` / `Default(expr(-1))`, or any of the `=` forms when something follows
//!     the value in the same list (another trait, another parameter, or just a trailing comma)
//!     ->  plain `-1`
//!
//! EXPECTED (per the property): every module below expands to the same `impl Default` as its `ok`
//! sibling, so this file compiles and all tests pass.
//! ACTUAL: the `ok_*` modules compile (`Into::into(-1)`), every `bad_*` module fails with
//! `error[E0308]: mismatched types` because the bare `-1` is emitted for a non-integer field type.
#![allow(dead_code)]

// ---------------------------------------------------------------- field position, `f64` / `Option<i32>`

mod ok_shorthand {
    use educe::Educe;

    #[derive(Educe)]
    #[educe(Default)]
    pub struct S {
        #[educe(Default = -1)]
        pub a: f64,
        #[educe(Default = -1)]
        pub b: Option<i32>,
    }
}

mod ok_expression_eq {
    use educe::Educe;

    #[derive(Educe)]
    #[educe(Default)]
    pub struct S {
        #[educe(Default(expression = -1))]
        pub a: f64,
        #[educe(Default(expr = -1))]
        pub b: Option<i32>,
    }
}

// `p = v`  vs  `p(v)`
mod bad_expression_paren {
    use educe::Educe;

    #[derive(Educe)]
    #[educe(Default)]
    pub struct S {
        #[educe(Default(expression(-1)))]
        pub a: f64,
        #[educe(Default(expr(-1)))]
        pub b: Option<i32>,
    }
}

// order of traits inside one `#[educe(..)]` list: `Default = -1` last (ok) vs first (bad)
mod ok_trait_order {
    use educe::Educe;

    #[derive(Educe)]
    #[educe(Default, Debug)]
    pub struct S {
        #[educe(Debug(ignore), Default = -1)]
        pub a: f64,
    }
}

mod bad_trait_order {
    use educe::Educe;

    #[derive(Educe)]
    #[educe(Default, Debug)]
    pub struct S {
        #[educe(Default = -1, Debug(ignore))]
        pub a: f64,
    }
}

// one list vs several attributes: splitting the list of `bad_trait_order` "repairs" it
mod ok_split_attributes {
    use educe::Educe;

    #[derive(Educe)]
    #[educe(Default, Debug)]
    pub struct S {
        #[educe(Default = -1)]
        #[educe(Debug(ignore))]
        pub a: f64,
    }
}

// a trailing comma is enough
mod bad_trailing_comma {
    use educe::Educe;

    #[derive(Educe)]
    #[educe(Default)]
    pub struct S {
        #[educe(Default = -1,)]
        pub a: f64,
    }
}

// ---------------------------------------------------------------- type position, order of parameters

pub struct W(pub i32);

impl From<i32> for W {
    fn from(v: i32) -> W {
        W(v)
    }
}

mod ok_type_param_order {
    use educe::Educe;

    #[derive(Educe)]
    #[educe(Default(new, expression = -1))]
    pub struct S(pub super::W);

    impl From<i32> for S {
        fn from(v: i32) -> S {
            S(super::W(v))
        }
    }
}

mod bad_type_param_order {
    use educe::Educe;

    #[derive(Educe)]
    #[educe(Default(expression = -1, new))]
    pub struct S(pub super::W);

    impl From<i32> for S {
        fn from(v: i32) -> S {
            S(super::W(v))
        }
    }
}

#[test]
fn all_spellings_give_minus_one() {
    assert_eq!(ok_shorthand::S::default().a, -1.0);
    assert_eq!(ok_shorthand::S::default().b, Some(-1));
    assert_eq!(ok_expression_eq::S::default().a, -1.0);
    assert_eq!(ok_expression_eq::S::default().b, Some(-1));
    assert_eq!(bad_expression_paren::S::default().a, -1.0);
    assert_eq!(bad_expression_paren::S::default().b, Some(-1));
    assert_eq!(ok_trait_order::S::default().a, -1.0);
    assert_eq!(bad_trait_order::S::default().a, -1.0);
    assert_eq!(ok_split_attributes::S::default().a, -1.0);
    assert_eq!(bad_trailing_comma::S::default().a, -1.0);
    assert_eq!((ok_type_param_order::S::new().0).0, -1);
    assert_eq!((bad_type_param_order::S::new().0).0, -1);
}
