//! Property C14 "Alternative attribute spellings are interchangeable" - clause "`p = v` and `p(v)`;
//! ... path ... values and their string-literal forms".
//!
//! A `method` value that is a *qualified* path, `<Type as Trait>::function`, is accepted WITHOUT a
//! diagnostic in the `method = <Type as Trait>::function` spelling - but educe silently drops the
//! `<Type as ..>` part and generates a call to `Trait::function(..)`.
//! The two other spellings of the very same request, `method(<Type as Trait>::function)` and
//! `method = "<Type as Trait>::function"`, are refused ("expected identifier"), so the three spellings are
//! not interchangeable, and the one that is accepted does not call the function that was written.
//!
//! EXPECTED: `method = <str as Show>::show` calls `<str as Show>::show` (the field is a `String`, which
//! deref-coerces to `&str`), i.e. prints "str impl" / hashes 1 / compares with the `str` impl.
//! ACTUAL: `Show::show(..)` is generated, `Self` is inferred from the argument (`&String`), and the
//! `String` impl runs: the tests below fail.
#![allow(dead_code)]

use std::fmt;

use educe::Educe;

pub trait Show {
    fn show(&self, f: &mut fmt::Formatter<'_>) -> fmt::Result;
    fn same(&self, other: &Self) -> bool;
}

impl Show for str {
    fn show(&self, f: &mut fmt::Formatter<'_>) -> fmt::Result {
        f.write_str("str impl")
    }

    fn same(&self, _other: &Self) -> bool {
        true
    }
}

impl Show for String {
    fn show(&self, f: &mut fmt::Formatter<'_>) -> fmt::Result {
        f.write_str("String impl")
    }

    fn same(&self, _other: &Self) -> bool {
        false
    }
}

#[derive(Educe)]
#[educe(Debug, PartialEq)]
struct S {
    #[educe(Debug(method = <str as Show>::show))]
    #[educe(PartialEq(method = <str as Show>::same))]
    a: String,
}

// What the attribute asks for, written by hand.
fn reference(a: &String) -> String {
    struct R<'a>(&'a String);

    impl fmt::Debug for R<'_> {
        fn fmt(&self, f: &mut fmt::Formatter<'_>) -> fmt::Result {
            <str as Show>::show(self.0, f)
        }
    }

    format!("{:?}", R(a))
}

#[test]
fn debug_method_uses_the_path_as_written() {
    let s = S {
        a: String::from("x")
    };

    assert_eq!(reference(&s.a), "str impl");
    assert_eq!(format!("{:?}", s), "S { a: str impl }");
}

#[test]
fn partial_eq_method_uses_the_path_as_written() {
    let a = S {
        a: String::from("x")
    };
    let b = S {
        a: String::from("x")
    };

    assert!(<str as Show>::same(&a.a, &b.a));
    assert!(a == b);
}
