// Property C12 ("Explicit bound modes and the type's own generics are honoured verbatim"):
//
//   `bound(p1, p2, ...)` or `bound = "..."` adds exactly the given predicates; `bound(*)`
//   constrains every type parameter by the trait of the impl ... in every mode, for every
//   trait and shape, EACH generated impl header carries the type's generics, its where-clause
//   and the predicates of the chosen bound mode.
//
// EXPECTED: the explicit predicates written in `Debug(bound(..))` are in force for all the code
// educe generates for `Debug`, so a field formatted through `method(..)` whose function needs
// `T: Debug` compiles - the user said `T: Debug` (list form, string form, or `*`).
//
// ACTUAL: for a field with `Debug(method(..))` educe generates a SECOND impl inside `fmt`
//
//     impl<T> ::core::fmt::Debug for Educe__DebugField<&T, Struct<T>> /* original where-clause only */ {
//         fn fmt(..) { my_fmt(self.0, educe__f) }
//     }
//
// whose header reproduces the generics and the original where-clause but drops the predicates of
// the explicit bound mode. The outer `impl<T> Debug for Struct<T> where T: Debug` has them, the
// inner one does not, so this file does not compile on the unmodified tree:
//
//     error[E0277]: `T` doesn't implement `Debug`
//         required by a bound in `my_fmt`
//
// (four errors, one per `method(..)` field below). There is no spelling of `bound` that makes it compile; the
// only workaround is to put the bound on the type definition itself.
#![allow(dead_code)]

use std::fmt::{self, Debug, Formatter};

use educe::Educe;

fn my_fmt<T: Debug>(v: &T, f: &mut Formatter<'_>) -> fmt::Result {
    write!(f, "<{:?}>", v)
}

// list form
#[derive(Educe)]
#[educe(Debug(bound(T: Debug)))]
pub struct Struct<T> {
    #[educe(Debug(method(my_fmt)))]
    f: T,
}

// `*` form: "constrains every type parameter" by Debug
#[derive(Educe)]
#[educe(Debug(bound(*)))]
pub struct Tuple<T>(#[educe(Debug(method(my_fmt)))] T);

// string form, enum shape
#[derive(Educe)]
#[educe(Debug(bound = "T: Debug"))]
pub enum Enum<T> {
    A {
        #[educe(Debug(method(my_fmt)))]
        f: T,
    },
    B(#[educe(Debug(method(my_fmt)))] T),
}

#[test]
fn explicit_debug_bound_reaches_the_method_wrapper() {
    assert_eq!("Struct { f: <1> }", format!("{:?}", Struct { f: 1u8 }));
    assert_eq!("Tuple(<1>)", format!("{:?}", Tuple(1u8)));
    assert_eq!("A { f: <1> }", format!("{:?}", Enum::A { f: 1u8 }));
    assert_eq!("B(<1>)", format!("{:?}", Enum::B(1u8)));
}
