#![cfg(feature = "Into")]
#![allow(dead_code)]
// Property: "The field is passed through its custom method if given".
//
// For an enum, educe binds the designated field in the match pattern under the field's OWN name
// (`Self::A { conv, .. } => conv(conv)`; tuple fields are bound as `_0`, `_1`, ...).  If the custom
// method is reachable under the same identifier as the field, the binding shadows the function and
// the generated code does not compile.  The same definition as a struct works (`conv(self.conv)`).
//
// Expected: both tests compile and pass (x.into() == conv(field)).
// Actual:   error[E0618]: expected function, found `u16`   (test file does not compile)

use educe::Educe;

fn conv(v: u16) -> u8 {
    v as u8 + 1
}

// control: the same shape as a struct is fine
#[derive(Educe)]
#[educe(Into(u8))]
struct S {
    #[educe(Into(u8, method(conv)))]
    conv:  u16,
    other: u8,
}

#[derive(Educe)]
#[educe(Into(u8))]
enum E {
    A {
        #[educe(Into(u8, method(conv)))]
        conv: u16,
    },
}

#[test]
fn struct_field_named_like_method_control() {
    let v: u8 = S {
        conv: 1, other: 9
    }
    .into();
    assert_eq!(2, v);
}

#[test]
fn enum_field_named_like_method() {
    let v: u8 = E::A {
        conv: 1
    }
    .into();
    assert_eq!(2, v);
}
