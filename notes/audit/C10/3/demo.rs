#![cfg(feature = "Into")]
#![allow(dead_code)]
// Property: quantified over "all sets of target types" - `Into($crate::Foo)` written inside a
// `macro_rules!` body (the standard way to name a type from an exported macro) is a legal target type.
//
// educe stores every target type as a *string* (HashType) and re-lexes that string when it emits
// the type.  `$crate` is a single special identifier token that does not survive the
// to_string()/from_str round trip (it comes back as `$` + `crate`), so
// `syn::parse2(quote!(::core::convert::Into<#target_ty>)).unwrap()` panics inside the derive.
//
// Expected: compiles; x.into() returns field `a` (the unique field whose declared type is the target).
// Actual:   error: proc-macro derive panicked
//           message: called `Result::unwrap()` on an `Err` value: Error("expected one of: `for`, parentheses, ...")
// (A plain `$t:ty` fragment or a path without `$crate` in the same macro works.)

use educe::Educe;

pub struct Foo(pub u8);

macro_rules! mk {
    ($name:ident) => {
        #[derive(Educe)]
        #[educe(Into($crate::Foo))]
        struct $name {
            a: $crate::Foo,
            b: u8,
        }
    };
}

mk!(S);

#[test]
fn dollar_crate_target() {
    let f: Foo = S {
        a: Foo(3), b: 1
    }
    .into();
    assert_eq!(3, f.0);
}
