#![cfg(feature = "Into")]
#![allow(dead_code)]
// Property: "For each Into(T) requested on the type, and for no other T, `x.into()` ... returns the
// field designated for T: ... else the sole field, else the unique field whose declared type is T".
//
// educe normalises every reference type (requested target AND field type) by stripping ALL reference
// layers and the `mut`, and re-adding one shared `&'lt`:  `&'a mut u8` -> `&'a u8`,
// `&'static &'static str` -> `&'static str`.  Consequently
//   * Into(&'a mut u8) generates `impl Into<&'a u8>` - the requested Into<&'a mut u8> is missing and an
//     un-requested Into<&'a u8> exists;
//   * Into(&'static &'static str) generates `impl Into<&'static str>`;
//   * a struct { a: &'static &'static str, b: &'static str } with Into(&'static str) is refused
//     ("there is no field which is assigned for `Into<&'static str>`") although `b` is the unique
//     field whose declared type is the target.
//
// Expected: file compiles and all tests pass.
// Actual:   error[E0277]: the trait bound `&mut u8: From<S<'_>>` is not satisfied
//           error[E0277]: the trait bound `&&str: From<N>` is not satisfied
//           error: there is no field which is assigned for `Into<&'static str>`

use educe::Educe;

#[derive(Educe)]
#[educe(Into(&'a mut u8))]
struct S<'a>(&'a mut u8);

#[test]
fn mut_ref_target() {
    let mut x = 1u8;
    {
        let r: &mut u8 = S(&mut x).into();
        *r = 2;
    }
    assert_eq!(2, x);
}

#[derive(Educe)]
#[educe(Into(&'static &'static str))]
struct N(&'static &'static str);

#[test]
fn nested_ref_target() {
    let r: &'static &'static str = N(&"a").into();
    assert_eq!("a", *r);
}

#[derive(Educe)]
#[educe(Into(&'static str))]
struct U {
    a: &'static &'static str,
    b: &'static str,
}

#[test]
fn unique_field_of_declared_type() {
    let r: &'static str = U {
        a: &"a", b: "b"
    }
    .into();
    assert_eq!("b", r);
}
