// Finding 1: Deref / DerefMut on a field of type `&'a dyn Trait` / `&'a mut dyn Trait`
// (struct or enum) generates code that does not compile.
//
// Expected per the property ("for a reference-typed field, `&*x` is a reference to its
// referent", quantified over "value and reference field types"): the derive is accepted and
// `&*x` is the `&dyn Display` stored in the field (same data address as the referent).
//
// Actual: educe strips the `&'a` and emits `type Target = dyn Display;`. In an associated-type
// position that means `dyn Display + 'static`, whereas the field is `&'a (dyn Display + 'a)`.
// The generated `fn deref(&self) -> &Self::Target { self.0 }` is therefore rejected:
//   error: lifetime may not live long enough
//   ... returning this value requires that `'a` must outlive `'static`
// so this test file FAILS TO COMPILE on the unmodified tree.
#![allow(dead_code)]

use core::fmt::Display;

use educe::Educe;

#[derive(Educe)]
#[educe(Deref)]
struct DynRef<'a>(&'a dyn Display);

#[derive(Educe)]
#[educe(Deref, DerefMut)]
struct DynMut<'a> {
    tag: u8,
    #[educe(Deref, DerefMut)]
    w:   &'a mut dyn core::fmt::Write,
}

#[derive(Educe)]
#[educe(Deref)]
enum DynEnum<'a> {
    A(&'a dyn Display),
    B { n: u8, #[educe(Deref)] d: &'a dyn Display },
}

// What a correct expansion looks like (this one compiles):
struct Manual<'a>(&'a dyn Display);
impl<'a> core::ops::Deref for Manual<'a> {
    type Target = dyn Display + 'a;

    fn deref(&self) -> &Self::Target {
        self.0
    }
}

#[test]
fn deref_to_the_referent_of_a_dyn_reference() {
    let s = String::from("x");

    let m = Manual(&s);
    assert_eq!(format!("{}", &*m), "x");
    assert_eq!(&*m as *const dyn Display as *const u8, &s as *const String as *const u8);

    let d = DynRef(&s);
    assert_eq!(format!("{}", &*d), "x");
    assert_eq!(&*d as *const dyn Display as *const u8, &s as *const String as *const u8);

    let e = DynEnum::B {
        n: 1, d: &s
    };
    assert_eq!(format!("{}", &*e), "x");

    let mut out = String::new();
    {
        let mut w = DynMut {
            tag: 0, w: &mut out
        };
        (&mut *w).write_str("hi").unwrap();
    }
    assert_eq!(out, "hi");
}
