// Finding 3 (low severity, hygiene): the enum handlers bind the designated field with a bare
// identifier pattern - the field's own name for a named variant (`Self::V { level, .. } => level`)
// and `_0`, `_1`, .. for a tuple variant (`Self::V(_0, ..) => _0`). In Rust an identifier pattern
// resolves to a constant / static / unit struct of that name if one is in scope, so the
// generated `match` stops being a binding and the expansion is rejected.
//
// Expected per the property (quantified over all enum definitions, named and tuple shapes;
// surrounding names are not supposed to matter): `&*x` / `&mut *x` refer to the designated field.
//
// Actual: this file FAILS TO COMPILE on the unmodified tree:
//   error[E0530]: match bindings cannot shadow statics            (module `named`)
//   error[E0308]: mismatched types: expected `&u32`, found `u32`  (module `tuple`, Deref)
//   error[E0308]: mismatched types: expected `&mut u32`, found `u32` (module `tuple`, DerefMut)
// The equivalent structs are fine because the struct handlers use `self.level` / `self.0`.
#![allow(dead_code, non_upper_case_globals)]

mod named {
    use educe::Educe;

    pub static level: u32 = 0;

    #[derive(Educe)]
    #[educe(Deref, DerefMut)]
    pub enum Named {
        V { level: u32 },
    }

    // the struct shape with the same field name is accepted
    #[derive(Educe)]
    #[educe(Deref, DerefMut)]
    pub struct NamedStruct {
        pub level: u32,
    }
}

mod tuple {
    use educe::Educe;

    pub const _0: u32 = 0;

    #[derive(Educe)]
    #[educe(Deref, DerefMut)]
    pub enum Tuple {
        V(u32),
    }
}

#[test]
fn enum_deref_is_independent_of_surrounding_names() {
    let mut n = named::Named::V {
        level: 1
    };
    *n = 2;
    assert_eq!(*n, 2);

    let mut s = named::NamedStruct {
        level: 1
    };
    *s = 2;
    assert_eq!(s.level, 2);

    let mut t = tuple::Tuple::V(1);
    *t = 2;
    assert_eq!(*t, 2);
}
