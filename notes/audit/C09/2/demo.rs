// Finding 2: a reference-typed field is only recognised when the field's type is *syntactically*
// a bare `&..` token tree. When the very same type reaches the derive wrapped in an invisible
// group (every `$t:ty` substituted by macro_rules) or in redundant parentheses, educe no longer
// treats the field as reference-typed.
//
// Expected per the property: "for a reference-typed field, `&*x` is a reference to its referent",
// i.e. `Target = u32` and `&*x` has the address of the pointee - exactly what educe does for
// `struct Plain<'a>(&'a u32)` below.
//
// Actual: for `Grouped` / `Parenthesised` educe emits `type Target = &'a u32;` and
// `fn deref(&self) -> &Self::Target { &self.0 }`, so `&*x` is a `&&u32` pointing at the struct's own
// field, not at the referent. The two #[test]s marked "fails" fail on the unmodified tree.
// With an enum the same input does not even compile (see `Mixed` at the bottom, kept in a
// comment so that the run-time failures stay visible).
#![allow(dead_code, unused_parens)]

use core::ops::Deref;

use educe::Educe;

#[derive(Educe)]
#[educe(Deref)]
struct Plain<'a>(&'a u32);

macro_rules! newtype {
    ($name:ident, $t:ty) => {
        #[derive(Educe)]
        #[educe(Deref)]
        struct $name<'a>($t);
    };
}

newtype!(Grouped, &'a u32);

#[derive(Educe)]
#[educe(Deref)]
struct Parenthesised<'a>((&'a u32));

fn addr<T>(r: &T) -> usize {
    r as *const T as usize
}

#[test]
fn plain_reference_field_derefs_to_the_referent() {
    // passes: this is the behaviour the property describes
    let x = 7u32;
    let v = Plain(&x);
    let t: &<Plain as Deref>::Target = &*v;
    assert_eq!(addr(t), addr(&x));
}

#[test]
fn macro_rules_ty_fragment_reference_field_derefs_to_the_referent() {
    // fails: `&*v` is the address of `v.0` (the slot holding the reference), not of `x`
    let x = 7u32;
    let v = Grouped(&x);
    let t: &<Grouped as Deref>::Target = &*v;
    assert_eq!(addr(t), addr(&x));
}

#[test]
fn parenthesised_reference_field_derefs_to_the_referent() {
    // fails in the same way
    let x = 7u32;
    let v = Parenthesised(&x);
    let t: &<Parenthesised as Deref>::Target = &*v;
    assert_eq!(addr(t), addr(&x));
}

// Enum flavour: accepted when written by hand, rejected when the first variant's type comes
// from a `$t:ty` fragment ("expected `&&u32`, found `&u32`" for variant B), because
// `Target` becomes `&'a u32` instead of `u32`:
//
// macro_rules! mixed { ($t:ty) => {
//     #[derive(Educe)] #[educe(Deref)]
//     enum Mixed<'a> { A($t), B(u32) }
// } }
// mixed!(&'a u32);
