// Property clause: "Educed Clone on a union is a bitwise copy requiring Copy fields."
//
// Every field below IS `Copy` (shared references always are), so `#[educe(Copy, Clone)]`
// (the documented spelling for unions) must produce a working bitwise-copy `Clone`
// (and `Copy`) impl, exactly like `#[derive(Copy, Clone)]` does for the same unions.
//
// What happens instead: educe writes one `FieldType: ::core::marker::Copy` where-predicate per
// field.  When two field types differ only in a lifetime (`&'a u8` / `&'b u8`, or `&'a str` /
// `&'static str`) the impl gets two where-clauses that are identical up to regions; rustc then
// cannot pick one and rejects the GENERATED code:
//   error[E0204]: the trait `Copy` cannot be implemented for this type ... this field does not implement `Copy`
//   error[E0283]: type annotations needed: cannot satisfy `&u8: Copy`      (Clone only)
// so this test file does not compile on the unmodified tree.
#![cfg(all(feature = "Clone", feature = "Copy"))]
#![allow(dead_code)]

use educe::Educe;

#[test]
fn copy_clone_union_two_lifetimes() {
    #[derive(Educe)]
    #[educe(Copy, Clone)]
    union U<'a, 'b> {
        a: &'a u8,
        b: &'b u8,
    }

    let x = 1u8;
    let u = U {
        a: &x
    };
    let v = u.clone();
    assert_eq!(1, unsafe { *v.a });
}

#[test]
fn copy_clone_union_static_and_named_lifetime() {
    #[derive(Educe)]
    #[educe(Copy, Clone)]
    union U<'a> {
        a: &'a str,
        b: &'static str,
    }

    let u = U {
        b: "hi"
    };
    let v = u.clone();
    assert_eq!("hi", unsafe { v.b });
}

#[test]
fn clone_only_union_two_lifetimes() {
    // Copy supplied by the built-in derive, only Clone is educed.
    #[derive(Educe, Copy)]
    #[educe(Clone)]
    union U<'a, 'b> {
        a: &'a u8,
        b: &'b u8,
    }

    let x = 1u8;
    let u = U {
        a: &x
    };
    let v = u.clone();
    assert_eq!(1, unsafe { *v.a });
}

// control: the built-in derive accepts the very same union
#[test]
fn std_derive_is_fine() {
    #[derive(Copy, Clone)]
    union U<'a, 'b> {
        a: &'a u8,
        b: &'b u8,
    }

    let x = 1u8;
    let u = U {
        a: &x
    };
    let v = u.clone();
    assert_eq!(1, unsafe { *v.a });
}
