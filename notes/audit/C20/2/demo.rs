// Property clause: "Default initialises exactly the designated field with its expression
// or the field type's default."
//
// `#[educe(Default = <literal>)]` on a union field is the documented spelling (README, "The
// Default Values for Specific Fields", which has a union example).  The literal `7` is a
// perfectly good expression for a field whose type is `u64`, however that type is spelled, so
// `default()` must be `U { a: 7 }`.
//
// What happens instead: educe only recognises the integer type when it is written as one of the
// bare tokens `u8`..`isize`.  For any other spelling of the same type (a type alias, a
// `::core::primitive::u64` path, a C typedef such as `std::os::raw::c_ulong`) it rewrites the
// expression to `::core::convert::Into::into(7)`; the literal then falls back to `i32`, and the
// GENERATED code is rejected:
//   error[E0277]: the trait bound `u64: From<i32>` is not satisfied
// The same happens for a byte-string literal and a `&'static [u8]` field
//   error[E0277]: the trait bound `&[u8]: From<&[u8; 2]>` is not satisfied
// so this test file does not compile on the unmodified tree.
#![cfg(feature = "Default")]
#![allow(dead_code)]

use educe::Educe;

type Id = u64;

#[test]
fn default_union_literal_for_aliased_integer_field() {
    #[derive(Educe)]
    #[educe(Default)]
    union U {
        #[educe(Default = 7)]
        a: Id,
        b: u8,
    }

    assert_eq!(7, unsafe { U::default().a });
}

#[test]
fn default_union_literal_for_path_spelled_integer_field() {
    #[derive(Educe)]
    #[educe(Default)]
    union U {
        #[educe(Default = 7)]
        a: ::core::primitive::u64,
        b: u8,
    }

    assert_eq!(7, unsafe { U::default().a });
}

#[test]
fn default_union_byte_string_for_slice_field() {
    #[derive(Educe)]
    #[educe(Default)]
    union U {
        #[educe(Default = b"ab")]
        a: &'static [u8],
        b: u8,
    }

    assert_eq!(b"ab", unsafe { U::default().a });
}

// control: the same literal with the bare spelling of the type works
#[test]
fn control_bare_u64() {
    #[derive(Educe)]
    #[educe(Default)]
    union U {
        #[educe(Default = 7)]
        a: u64,
        b: u8,
    }

    assert_eq!(7, unsafe { U::default().a });
}
