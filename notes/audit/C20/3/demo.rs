// Property clause: "For unions, educed Debug, PartialEq and Hash operate on exactly the
// size_of::<Self>() bytes of the value ... (for all union definitions (field counts, sizes,
// alignments, GENERICS), all name settings, all byte patterns)".
//
// A const generic parameter may legally be called `size`, `data`, `f`, `state`, `other`, ...
// (rustc only emits the `non_upper_case_globals` style lint, and the built-in
// `#[derive(Debug, PartialEq, Hash)]` handles such parameters fine - see the control test).
// Expected: `#[educe(Debug(unsafe))]` / `PartialEq(unsafe)` / `Hash(unsafe)` on such a union
// print / compare / hash its `size_of::<Self>()` bytes like for any other union.
//
// What happens instead: the generated bodies introduce the un-hygienic bindings
// `let size = ..; let data = ..; let mut builder = ..;` (and the parameters `f`, `state`,
// `other`).  With a const parameter of the same name in scope, `size` in `let size = ...` is
// resolved as a *pattern referring to the const parameter*, and the GENERATED code is rejected:
//   error[E0158]: constant parameters cannot be referenced in patterns
// so this test file does not compile on the unmodified tree.
#![cfg(all(feature = "Debug", feature = "PartialEq", feature = "Hash"))]
#![allow(dead_code, non_upper_case_globals)]

use std::{
    collections::hash_map::DefaultHasher,
    hash::{Hash, Hasher},
};

use educe::Educe;

fn hash_of<T: Hash + ?Sized>(t: &T) -> u64 {
    let mut s = DefaultHasher::new();
    t.hash(&mut s);
    s.finish()
}

#[test]
fn debug_union_const_param_named_size() {
    #[derive(Educe)]
    #[educe(Debug(unsafe))]
    union U<const size: usize> {
        a: [u8; size],
    }

    assert_eq!(
        "U([1, 2])",
        format!("{:?}", U::<2> {
            a: [1, 2]
        })
    );
}

#[test]
fn debug_union_const_param_named_data_no_name() {
    #[derive(Educe)]
    #[educe(Debug(unsafe, name = false))]
    union U<const data: usize> {
        a: [u8; data],
    }

    assert_eq!(
        "[1, 2]",
        format!("{:?}", U::<2> {
            a: [1, 2]
        })
    );
}

#[test]
fn partial_eq_union_const_param_named_size() {
    #[derive(Educe)]
    #[educe(PartialEq(unsafe))]
    union U<const size: usize> {
        a: [u8; size],
    }

    assert!(
        U::<2> {
            a: [1, 2]
        } == U::<2> {
            a: [1, 2]
        }
    );
    assert!(
        U::<2> {
            a: [1, 2]
        } != U::<2> {
            a: [1, 3]
        }
    );
}

#[test]
fn hash_union_const_param_named_data() {
    #[derive(Educe)]
    #[educe(Hash(unsafe))]
    union U<const data: usize> {
        a: [u8; data],
    }

    assert_eq!(
        hash_of(&[1u8, 2][..]),
        hash_of(&U::<2> {
            a: [1, 2]
        })
    );
}

// control: the built-in derives cope with exactly these parameter names
#[test]
fn std_derive_is_fine() {
    #[derive(Debug, PartialEq, Hash)]
    struct S<const size: usize, const data: usize, const f: usize, const state: usize, const other: usize> {
        a: [u8; size],
    }

    assert_eq!(
        "S { a: [1, 2] }",
        format!("{:?}", S::<2, 0, 0, 0, 0> {
            a: [1, 2]
        })
    );
}
