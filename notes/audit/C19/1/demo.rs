// Violation: a const generic parameter whose name coincides with an identifier
// the generated code uses for a function parameter or a local variable
// (`f`, `builder` in Debug; `other` in PartialEq/PartialOrd/Ord; `state` in Hash;
// `source` in Clone) makes the generated impl fail to compile.
//
// EXPECTED (property "Generated code is insulated from the names at the derive
// site": "... for types whose field, variant, lifetime, const- or type-parameter
// names coincide with whatever identifiers the generated code happens to use
// internally"): every type below gets working impls, exactly like the control
// type `Control<const N: usize>`, and all #[test]s pass.
//
// ACTUAL: this file does not compile. rustc resolves the generated parameter
// pattern `f` / `other` / `state` / `source` (and the generated `let mut builder`)
// to the const parameter of the surrounding impl instead of introducing a new
// binding:
//   error[E0308]: mismatched types ... `f` is interpreted as a const parameter, not a new binding
//   error[E0530]: let bindings cannot shadow const parameters
//
// A lower-case const parameter is legal Rust (it only triggers the
// `non_upper_case_globals` lint, which is allowed here).

#![allow(dead_code, non_upper_case_globals)]

use core::{
    cmp::Ordering,
    hash::{Hash, Hasher},
};

use educe::Educe;

// control: same shapes, "ordinary" const parameter name -> compiles and works
#[derive(Educe)]
#[educe(Debug, Clone, PartialEq, Eq, PartialOrd, Ord, Hash)]
struct Control<const N: usize> {
    a: [u8; N],
}

// const parameter called `f` (the name of the Formatter parameter of the generated `fmt`)
#[derive(Educe)]
#[educe(Debug)]
struct DebugF<const f: usize> {
    a: [u8; f],
}

// const parameter called `builder` (the name of a generated local in `fmt`)
#[derive(Educe)]
#[educe(Debug)]
enum DebugBuilder<const builder: usize> {
    V { a: [u8; builder] },
}

// const parameter called `other` (second parameter of eq / partial_cmp / cmp)
#[derive(Educe)]
#[educe(PartialEq, Eq, PartialOrd, Ord)]
struct CmpOther<const other: usize> {
    a: [u8; other],
}

// const parameter called `state` (the Hasher parameter of the generated `hash`)
#[derive(Educe)]
#[educe(Hash)]
struct HashState<const state: usize> {
    a: [u8; state],
}

// const parameter called `source` (the parameter of the generated `clone_from`)
#[derive(Educe)]
#[educe(Clone)]
struct CloneSource<const source: usize> {
    a: [u8; source],
}

#[derive(Default)]
struct Fnv(u64);

impl Hasher for Fnv {
    fn finish(&self) -> u64 {
        self.0
    }

    fn write(&mut self, bytes: &[u8]) {
        for b in bytes {
            self.0 = (self.0 ^ u64::from(*b)).wrapping_mul(0x100000001b3);
        }
    }
}

fn hash_of<T: Hash>(v: &T) -> u64 {
    let mut h = Fnv::default();
    v.hash(&mut h);
    h.finish()
}

#[test]
fn control() {
    let a = Control::<2> {
        a: [1, 2]
    };
    assert_eq!(format!("{:?}", a), "Control { a: [1, 2] }");
    assert!(a == a.clone());
    assert_eq!(a.cmp(&a), Ordering::Equal);
    assert_eq!(hash_of(&a), hash_of(&a.clone()));
}

#[test]
fn const_param_called_f() {
    assert_eq!(
        format!("{:?}", DebugF::<2> {
            a: [1, 2]
        }),
        "DebugF { a: [1, 2] }"
    );
}

#[test]
fn const_param_called_builder() {
    assert_eq!(
        format!("{:?}", DebugBuilder::<2>::V {
            a: [1, 2]
        }),
        "V { a: [1, 2] }"
    );
}

#[test]
fn const_param_called_other() {
    let a = CmpOther::<2> {
        a: [1, 2]
    };
    let b = CmpOther::<2> {
        a: [1, 3]
    };
    assert!(a != b);
    assert_eq!(a.partial_cmp(&b), Some(Ordering::Less));
    assert_eq!(b.cmp(&a), Ordering::Greater);
}

#[test]
fn const_param_called_state() {
    let a = HashState::<2> {
        a: [1, 2]
    };
    let b = HashState::<2> {
        a: [1, 2]
    };
    assert_eq!(hash_of(&a), hash_of(&b));
}

#[test]
fn const_param_called_source() {
    let a = CloneSource::<2> {
        a: [1, 2]
    };
    let mut b = CloneSource::<2> {
        a: [0, 0]
    };
    b.clone_from(&a);
    assert_eq!(b.a, [1, 2]);
    assert_eq!(a.clone().a, [1, 2]);
}
