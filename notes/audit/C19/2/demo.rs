// Violation: the generated `hash` method introduces a method-level generic
// parameter called `H` (`fn hash<H: ::core::hash::Hasher>(&self, state: &mut H)`),
// and the user-supplied `#[educe(Hash(method(..)))]` path is pasted into the body
// of that method. A type or module called `H` at the derive site is therefore
// captured by educe's own `H`.
//
// EXPECTED (property "Generated code is insulated from the names at the derive
// site": the generated impls compile and behave the same whatever names surround
// the type; the property explicitly mentions the internal identifier `H`):
// `#[educe(Hash(method(H::hash_len)))]` calls the associated function `hash_len`
// of the *user's* type `H` (and `H::hash_len` of the user's module `H`), just as
// `#[educe(Hash(method(Helper::hash_len)))]` does for the control type, and just
// as `#[educe(PartialEq(method(H::eq_len)))]` does on the very same type.
//
// ACTUAL: this file does not compile:
//   error[E0599]: no function or associated item named `hash_len` found for type parameter `H` in the current scope
// for the struct, the enum, and the module variant.

#![allow(dead_code, non_snake_case)]

use core::hash::{Hash, Hasher};

use educe::Educe;

#[derive(Default)]
struct Fnv(u64);

impl Hasher for Fnv {
    fn finish(&self) -> u64 {
        self.0
    }

    fn write(&mut self, bytes: &[u8]) {
        for b in bytes {
            self.0 = (self.0 ^ u64::from(*b)).wrapping_mul(0x100000001b3);
        }
    }
}

fn hash_of<T: Hash>(v: &T) -> u64 {
    let mut h = Fnv::default();
    v.hash(&mut h);
    h.finish()
}

mod control {
    use super::*;

    /// helper type with an "ordinary" name
    pub struct Helper;

    impl Helper {
        pub fn hash_len<S: Hasher>(v: &&str, state: &mut S) {
            Hash::hash(&v.len(), state)
        }
    }

    #[derive(Educe)]
    #[educe(Hash)]
    pub struct Struct {
        #[educe(Hash(method(Helper::hash_len)))]
        pub name: &'static str,
    }
}

mod helper_type_called_h {
    use super::*;

    /// the same helper type, but called `H`
    pub struct H;

    impl H {
        pub fn hash_len<S: Hasher>(v: &&str, state: &mut S) {
            Hash::hash(&v.len(), state)
        }

        pub fn eq_len(a: &&str, b: &&str) -> bool {
            a.len() == b.len()
        }
    }

    #[derive(Educe)]
    #[educe(Hash, PartialEq)]
    pub struct Struct {
        // the PartialEq twin of the same path works, the Hash one does not
        #[educe(Hash(method(H::hash_len)), PartialEq(method(H::eq_len)))]
        pub name: &'static str,
    }

    #[derive(Educe)]
    #[educe(Hash)]
    pub enum Enum {
        V {
            #[educe(Hash(method(H::hash_len)))]
            name: &'static str,
        },
    }
}

mod helper_module_called_h {
    use super::*;

    pub mod H {
        use super::*;

        pub fn hash_len<S: Hasher>(v: &&str, state: &mut S) {
            Hash::hash(&v.len(), state)
        }
    }

    #[derive(Educe)]
    #[educe(Hash)]
    pub struct Struct {
        #[educe(Hash(method(H::hash_len)))]
        pub name: &'static str,
    }
}

#[test]
fn control_works() {
    let a = control::Struct {
        name: "abc"
    };
    let b = control::Struct {
        name: "xyz"
    };
    assert_eq!(hash_of(&a), hash_of(&b));
}

#[test]
fn helper_type_called_h() {
    use helper_type_called_h::*;

    let a = Struct {
        name: "abc"
    };
    let b = Struct {
        name: "xyz"
    };
    assert!(a == b);
    assert_eq!(hash_of(&a), hash_of(&b));

    assert_eq!(
        hash_of(&Enum::V {
            name: "abc"
        }),
        hash_of(&Enum::V {
            name: "xyz"
        })
    );
}

#[test]
fn helper_module_called_h() {
    use helper_module_called_h::*;

    let a = Struct {
        name: "abc"
    };
    let b = Struct {
        name: "xyz"
    };
    assert_eq!(hash_of(&a), hash_of(&b));
}
