// Violation: user-supplied `method(..)` paths are pasted into a scope in which
// educe has introduced value bindings of its own, so a free function whose name
// coincides with one of those bindings is shadowed:
//
//  (a) Into on an enum variant with named fields binds the field under its own
//      name (`Self::V { millis, .. } => millis(millis)`), so a conversion function
//      that has the same name as the field it converts is shadowed by the field.
//      The struct shape (`millis(self.millis)`) accepts exactly the same input.
//  (b) PartialEq/PartialOrd/Ord name their second parameter `other`, Hash names its
//      hasher parameter `state`, Clone names the `clone_from` parameter `source`,
//      so functions called `other` / `state` / `source` cannot be used as `method`.
//
// EXPECTED (property "Generated code is insulated from the names at the derive
// site": the generated impls compile and behave the same whatever names surround
// or appear in the type, for all traits and shapes, including field names that
// coincide with identifiers the generated code uses): all types below compile
// and the #[test]s pass - as they do for the struct shape of (a) and as soon as
// the helper functions are given any other name.
//
// ACTUAL: this file does not compile:
//   error[E0618]: expected function, found `u32`             (a, enum only)
//   error[E0618]: expected function, found `&by_other::Struct` (b, `other`)
//   error[E0618]: expected function, found `&mut H`          (b, `state`)
//   error[E0618]: expected function, found `&by_source::Struct` (b, `source`)
// each with the note "this function of the same name is available here, but it's
// shadowed by the local binding".

#![allow(dead_code)]

use core::hash::{Hash, Hasher};

use educe::Educe;

mod into_field_and_function_share_a_name {
    use super::*;

    /// converts the `millis` field to seconds
    pub fn millis(v: u32) -> u8 {
        (v / 1000) as u8
    }

    // struct shape: accepted, works
    #[derive(Educe)]
    #[educe(Into(u8))]
    pub struct Struct {
        #[educe(Into(u8, method(millis)))]
        pub millis: u32,
    }

    // enum shape with the very same field: generated code does not compile
    #[derive(Educe)]
    #[educe(Into(u8))]
    pub enum Enum {
        V {
            #[educe(Into(u8, method(millis)))]
            millis: u32,
        },
    }
}

mod by_other {
    use super::*;

    /// compares against the other value ignoring ASCII case
    pub fn other(a: &&str, b: &&str) -> bool {
        a.eq_ignore_ascii_case(b)
    }

    #[derive(Educe)]
    #[educe(PartialEq)]
    pub struct Struct {
        #[educe(PartialEq(method(other)))]
        pub name: &'static str,
    }
}

mod by_state {
    use super::*;

    pub fn state<S: Hasher>(v: &&str, s: &mut S) {
        Hash::hash(&v.len(), s)
    }

    #[derive(Educe)]
    #[educe(Hash)]
    pub struct Struct {
        #[educe(Hash(method(state)))]
        pub name: &'static str,
    }
}

mod by_source {
    use super::*;

    pub fn source(v: &u8) -> u8 {
        *v + 1
    }

    #[derive(Educe)]
    #[educe(Clone)]
    pub struct Struct {
        #[educe(Clone(method(source)))]
        pub v: u8,
    }
}

#[derive(Default)]
struct Fnv(u64);

impl Hasher for Fnv {
    fn finish(&self) -> u64 {
        self.0
    }

    fn write(&mut self, bytes: &[u8]) {
        for b in bytes {
            self.0 = (self.0 ^ u64::from(*b)).wrapping_mul(0x100000001b3);
        }
    }
}

fn hash_of<T: Hash>(v: &T) -> u64 {
    let mut h = Fnv::default();
    v.hash(&mut h);
    h.finish()
}

#[test]
fn into_struct_and_enum_behave_the_same() {
    use into_field_and_function_share_a_name::*;

    let a: u8 = Struct {
        millis: 5000
    }
    .into();
    let b: u8 = Enum::V {
        millis: 5000
    }
    .into();

    assert_eq!(a, 5);
    assert_eq!(b, 5);
}

#[test]
fn method_called_other() {
    use by_other::*;

    assert!(
        Struct {
            name: "ABC"
        } == Struct {
            name: "abc"
        }
    );
}

#[test]
fn method_called_state() {
    use by_state::*;

    assert_eq!(
        hash_of(&Struct {
            name: "abc"
        }),
        hash_of(&Struct {
            name: "xyz"
        })
    );
}

#[test]
fn method_called_source() {
    use by_source::*;

    let a = Struct {
        v: 1
    };
    assert_eq!(a.clone().v, 2);

    let mut b = Struct {
        v: 0
    };
    b.clone_from(&a);
    assert_eq!(b.v, 2);
}
