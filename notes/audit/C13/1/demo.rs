// FINDING 1 - an empty parameter list `Trait()` is silently accepted at positions where the trait
// accepts no attribute at all.
//
// Property clause: "a derive request is refused with a compile-time diagnostic, and never silently
// resolved, ... when a field or variant carries an attribute ... the trait does not accept at that
// position (such as ... `method` on a union field, `bound` on a variant)" / "misplaced attributes are
// rejected".
//
// Expected: `#[educe(Debug())]` on a union field, `#[educe(PartialEq())]` / `#[educe(Copy())]` /
// `#[educe(Ord())]` ... on an enum variant, `#[educe(Default())]` on a field of a non-default
// variant are refused exactly like `#[educe(Debug)]`, `#[educe(Debug(ignore))]`,
// `#[educe(PartialEq(bound = false))]` ... are at the same place ("the `Debug` attribute cannot be
// placed here"), and exactly like `#[educe(Deref())]`, `#[educe(Into())]` on a variant or
// `#[educe(Copy())]` / `#[educe(Eq())]` on a field already are.
//
// Observed: the derive compiles without any diagnostic, the misplaced attribute is dropped silently.

#[test]
fn control_valid_input_is_accepted() {
    assert_accepted("#[derive(Educe)] #[educe(Debug(unsafe))] union U { a: u8, b: u16 }");
    assert_accepted("#[derive(Educe)] #[educe(PartialEq)] enum E { A, B(u8) }");
}

#[test]
fn control_every_other_spelling_at_these_places_is_refused() {
    // union field: Debug accepts nothing there
    assert_rejected("#[derive(Educe)] #[educe(Debug(unsafe))] union U { #[educe(Debug)] a: u8, b: u16 }");
    assert_rejected("#[derive(Educe)] #[educe(Debug(unsafe))] union U { #[educe(Debug(ignore))] a: u8, b: u16 }");
    assert_rejected("#[derive(Educe)] #[educe(Debug(unsafe))] union U { #[educe(Debug = false)] a: u8, b: u16 }");
    // variant: PartialEq accepts nothing there
    assert_rejected("#[derive(Educe)] #[educe(PartialEq)] enum E { #[educe(PartialEq)] A, B(u8) }");
    assert_rejected("#[derive(Educe)] #[educe(PartialEq)] enum E { #[educe(PartialEq(bound = false))] A, B(u8) }");
    // the empty list IS refused by these handlers at the very same kind of place
    assert_rejected("#[derive(Educe)] #[educe(Deref)] enum E { #[educe(Deref())] A(u8), B(u8) }");
    assert_rejected("#[derive(Educe)] #[educe(Into(u8))] enum E { #[educe(Into())] A(u8), B(u8) }");
    assert_rejected("#[derive(Educe, Clone)] #[educe(Copy)] struct S { #[educe(Copy())] a: u8 }");
    assert_rejected("#[derive(Educe, PartialEq)] #[educe(Eq)] struct S { #[educe(Eq())] a: u8 }");
}

#[test]
fn union_field_empty_list_must_be_refused() {
    assert_rejected("#[derive(Educe)] #[educe(Debug(unsafe))] union U { #[educe(Debug())] a: u8, b: u16 }");
}

#[test]
fn union_field_empty_list_must_be_refused_hash_partial_eq_clone() {
    assert_rejected("#[derive(Educe)] #[educe(Hash(unsafe))] union U { a: u8, #[educe(Hash())] b: u16 }");
    assert_rejected("#[derive(Educe)] #[educe(PartialEq(unsafe))] union U { a: u8, #[educe(PartialEq())] b: u16 }");
    assert_rejected("#[derive(Educe, Copy)] #[educe(Clone)] union U { a: u8, #[educe(Clone())] b: u16 }");
}

#[test]
fn variant_empty_list_must_be_refused_partial_eq() {
    assert_rejected("#[derive(Educe)] #[educe(PartialEq)] enum E { #[educe(PartialEq())] A, B(u8) }");
}

#[test]
fn variant_empty_list_must_be_refused_copy() {
    // `Copy()` on a FIELD is refused ("the `Copy` attribute cannot be placed here"), on a VARIANT it is not
    assert_rejected("#[derive(Educe, Clone)] #[educe(Copy)] enum E { A, #[educe(Copy())] B(u8) }");
}

#[test]
fn variant_empty_list_must_be_refused_other_traits() {
    assert_rejected("#[derive(Educe)] #[educe(Hash)] enum E { A, B(u8), #[educe(Hash())] C { c: u8 } }");
    assert_rejected("#[derive(Educe)] #[educe(Clone)] enum E { #[educe(Clone())] A, B(u8) }");
    assert_rejected("#[derive(Educe, PartialEq)] #[educe(Eq)] enum E { #[educe(Eq())] A, B(u8) }");
    assert_rejected("#[derive(Educe, PartialEq)] #[educe(PartialOrd)] enum E { #[educe(PartialOrd())] A, B(u8) }");
    assert_rejected("#[derive(Educe, PartialEq, Eq, PartialOrd)] #[educe(Ord)] enum E { #[educe(Ord())] A, B(u8) }");
}

#[test]
fn default_empty_list_on_non_default_places_must_be_refused() {
    // a non-default variant accepts no Default attribute (`Default(new)`, `Default(bound = false)` ... are refused)
    assert_rejected("#[derive(Educe)] #[educe(Default)] enum E { #[educe(Default)] A, #[educe(Default())] B }");
    // a field of a non-default variant accepts no Default attribute (`Default = 1` is refused there)
    assert_rejected("#[derive(Educe)] #[educe(Default)] enum E { #[educe(Default)] A(u8), B(#[educe(Default())] u8) }");
    // with a type-level expression no field accepts a Default attribute
    assert_rejected("#[derive(Educe)] #[educe(Default(expression = S { a: 1 }))] struct S { #[educe(Default())] a: u8 }");
}
// ---------------------------------------------------------------------------------------------
// helper: compile a snippet against the educe proc-macro that cargo built for this test run
// and report whether rustc accepted it. (The crate has no trybuild dev-dependency and the machine
// is offline, so the compile-fail check is done by calling `rustc` directly.)
// ---------------------------------------------------------------------------------------------
use std::{
    path::PathBuf,
    process::Command,
    sync::atomic::{AtomicUsize, Ordering},
};

static COUNTER: AtomicUsize = AtomicUsize::new(0);

/// The `libeduce-*.so` next to this test binary (`target/<profile>/deps`), newest one wins.
/// Can be overridden with the `EDUCE_SO` environment variable.
fn educe_dylib() -> PathBuf {
    if let Ok(p) = std::env::var("EDUCE_SO") {
        return PathBuf::from(p);
    }

    let exe = std::env::current_exe().unwrap();
    let deps = exe.parent().unwrap();

    let mut best: Option<(std::time::SystemTime, PathBuf)> = None;

    for entry in std::fs::read_dir(deps).unwrap() {
        let path = entry.unwrap().path();
        let name = path.file_name().unwrap().to_string_lossy().to_string();

        let is_lib = (name.starts_with("libeduce-") || name.starts_with("educe-"))
            && (name.ends_with(".so") || name.ends_with(".dylib") || name.ends_with(".dll"));

        if is_lib {
            let mtime = std::fs::metadata(&path).unwrap().modified().unwrap();

            if best.as_ref().map(|(t, _)| mtime > *t).unwrap_or(true) {
                best = Some((mtime, path));
            }
        }
    }

    best.expect("cannot find the educe proc-macro library next to the test binary").1
}

/// Returns `(accepted, stderr)`.
fn compile(snippet: &str) -> (bool, String) {
    let dir = PathBuf::from(env!("CARGO_TARGET_TMPDIR"));
    let n = COUNTER.fetch_add(1, Ordering::SeqCst);
    let work = dir.join(format!("found_demo_{}_{}", std::process::id(), n));
    std::fs::create_dir_all(&work).unwrap();
    let src = work.join("snippet.rs");

    std::fs::write(
        &src,
        format!("#![allow(dead_code, unused)]\nuse educe::Educe;\n{}\n", snippet),
    )
    .unwrap();

    let rustc = std::env::var("RUSTC").unwrap_or_else(|_| String::from("rustc"));

    let output = Command::new(rustc)
        .args(["--edition", "2021", "--crate-type", "lib", "--crate-name", "snippet"])
        .arg("--emit=metadata")
        .arg("--extern")
        .arg(format!("educe={}", educe_dylib().display()))
        .arg("--out-dir")
        .arg(&work)
        .arg(&src)
        .output()
        .expect("cannot run rustc");

    let _ = std::fs::remove_dir_all(&work);

    (output.status.success(), String::from_utf8_lossy(&output.stderr).to_string())
}

#[track_caller]
fn assert_accepted(snippet: &str) {
    let (accepted, stderr) = compile(snippet);

    assert!(accepted, "control snippet should compile but did not:\n{snippet}\n{stderr}");
}

#[track_caller]
fn assert_rejected(snippet: &str) {
    let (accepted, _) = compile(snippet);

    assert!(
        !accepted,
        "PROPERTY VIOLATED: the following derive request was accepted without any diagnostic, \
         but must be refused:\n{snippet}"
    );
}
