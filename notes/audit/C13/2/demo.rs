// FINDING 2 - a rank that is given twice is silently accepted when one of the two fields is also
// marked `ignore`.
//
// Property clause: "a derive request is refused with a compile-time diagnostic, and never silently
// resolved, when a trait, a parameter, a rank or an Into target is given twice" (for all
// placements, all shapes, PartialOrd and Ord, all spellings).
//
// Expected: `rank = 1` on two fields of the same struct / variant is refused with
// "the rank `1` is repeatedly used", whatever else the two attributes contain.
//
// Observed: if one of the two attributes also says `ignore`, the derive compiles without any
// diagnostic (the handlers `continue` on an ignored field before the duplicate-rank check).

#[test]
fn control_valid_input_is_accepted() {
    assert_accepted(
        "#[derive(Educe, PartialEq)] #[educe(PartialOrd)] struct S { #[educe(PartialOrd(rank = 1))] a: u8, \
         #[educe(PartialOrd(ignore, rank = 2))] b: u8 }",
    );
}

#[test]
fn control_duplicate_rank_is_refused_without_ignore() {
    assert_rejected(
        "#[derive(Educe, PartialEq)] #[educe(PartialOrd)] struct S { #[educe(PartialOrd(rank = 1))] a: u8, \
         #[educe(PartialOrd(rank = 1))] b: u8 }",
    );
    // an explicit `ignore = false` keeps the check alive
    assert_rejected(
        "#[derive(Educe, PartialEq)] #[educe(PartialOrd)] struct S { #[educe(PartialOrd(rank = 1))] a: u8, \
         #[educe(PartialOrd(ignore = false, rank = 1))] b: u8 }",
    );
}

#[test]
fn partial_ord_struct_duplicate_rank_with_ignore_must_be_refused() {
    assert_rejected(
        "#[derive(Educe, PartialEq)] #[educe(PartialOrd)] struct S { #[educe(PartialOrd(rank = 1))] a: u8, \
         #[educe(PartialOrd(ignore, rank = 1))] b: u8 }",
    );
}

#[test]
fn partial_ord_tuple_struct_duplicate_rank_with_ignore_first_must_be_refused() {
    assert_rejected(
        "#[derive(Educe, PartialEq)] #[educe(PartialOrd)] struct S(#[educe(PartialOrd(rank = 1, ignore))] u8, u8, \
         #[educe(PartialOrd(rank = 1))] u8);",
    );
}

#[test]
fn ord_enum_duplicate_rank_with_ignore_must_be_refused() {
    assert_rejected(
        "#[derive(Educe, PartialEq, Eq, PartialOrd)] #[educe(Ord)] enum E { U, A { #[educe(Ord(rank = \"1\"))] a: u8, \
         #[educe(Ord(ignore = true, rank(1)))] b: u8 } }",
    );
    assert_rejected(
        "#[derive(Educe, PartialEq, Eq, PartialOrd)] #[educe(Ord)] enum E { A(#[educe(Ord(rank = 1))] u8, \
         #[educe(Ord(ignore, rank = 1))] u8), U }",
    );
}

#[test]
fn both_fields_ignored_duplicate_rank_must_be_refused() {
    assert_rejected(
        "#[derive(Educe, PartialEq, Eq)] #[educe(PartialOrd, Ord)] struct S { #[educe(PartialOrd(ignore, rank = 1))] a: u8, \
         #[educe(Ord(ignore, rank = 1))] b: u8, c: u8 }",
    );
}
// ---------------------------------------------------------------------------------------------
// helper: compile a snippet against the educe proc-macro that cargo built for this test run
// and report whether rustc accepted it. (The crate has no trybuild dev-dependency and the machine
// is offline, so the compile-fail check is done by calling `rustc` directly.)
// ---------------------------------------------------------------------------------------------
use std::{
    path::PathBuf,
    process::Command,
    sync::atomic::{AtomicUsize, Ordering},
};

static COUNTER: AtomicUsize = AtomicUsize::new(0);

/// The `libeduce-*.so` next to this test binary (`target/<profile>/deps`), newest one wins.
/// Can be overridden with the `EDUCE_SO` environment variable.
fn educe_dylib() -> PathBuf {
    if let Ok(p) = std::env::var("EDUCE_SO") {
        return PathBuf::from(p);
    }

    let exe = std::env::current_exe().unwrap();
    let deps = exe.parent().unwrap();

    let mut best: Option<(std::time::SystemTime, PathBuf)> = None;

    for entry in std::fs::read_dir(deps).unwrap() {
        let path = entry.unwrap().path();
        let name = path.file_name().unwrap().to_string_lossy().to_string();

        let is_lib = (name.starts_with("libeduce-") || name.starts_with("educe-"))
            && (name.ends_with(".so") || name.ends_with(".dylib") || name.ends_with(".dll"));

        if is_lib {
            let mtime = std::fs::metadata(&path).unwrap().modified().unwrap();

            if best.as_ref().map(|(t, _)| mtime > *t).unwrap_or(true) {
                best = Some((mtime, path));
            }
        }
    }

    best.expect("cannot find the educe proc-macro library next to the test binary").1
}

/// Returns `(accepted, stderr)`.
fn compile(snippet: &str) -> (bool, String) {
    let dir = PathBuf::from(env!("CARGO_TARGET_TMPDIR"));
    let n = COUNTER.fetch_add(1, Ordering::SeqCst);
    let work = dir.join(format!("found_demo_{}_{}", std::process::id(), n));
    std::fs::create_dir_all(&work).unwrap();
    let src = work.join("snippet.rs");

    std::fs::write(
        &src,
        format!("#![allow(dead_code, unused)]\nuse educe::Educe;\n{}\n", snippet),
    )
    .unwrap();

    let rustc = std::env::var("RUSTC").unwrap_or_else(|_| String::from("rustc"));

    let output = Command::new(rustc)
        .args(["--edition", "2021", "--crate-type", "lib", "--crate-name", "snippet"])
        .arg("--emit=metadata")
        .arg("--extern")
        .arg(format!("educe={}", educe_dylib().display()))
        .arg("--out-dir")
        .arg(&work)
        .arg(&src)
        .output()
        .expect("cannot run rustc");

    let _ = std::fs::remove_dir_all(&work);

    (output.status.success(), String::from_utf8_lossy(&output.stderr).to_string())
}

#[track_caller]
fn assert_accepted(snippet: &str) {
    let (accepted, stderr) = compile(snippet);

    assert!(accepted, "control snippet should compile but did not:\n{snippet}\n{stderr}");
}

#[track_caller]
fn assert_rejected(snippet: &str) {
    let (accepted, _) = compile(snippet);

    assert!(
        !accepted,
        "PROPERTY VIOLATED: the following derive request was accepted without any diagnostic, \
         but must be refused:\n{snippet}"
    );
}
