// FINDING 3 - an `educe` attribute that is not of the list form (`#[educe]`, `#[educe = "..."]`) is
// refused on the type, but silently ignored on a field or a variant - whatever it names.
//
// Property clause: "a derive request is refused with a compile-time diagnostic, and never silently
// resolved, ... when a field or variant carries an attribute for a trait that is not educed on the
// type, for an unknown trait or parameter, or a parameter the trait does not accept at that
// position" / "misplaced attributes are rejected, not guessed" (for all spellings of the offending
// attribute).
//
// Expected: like on the type itself (`#[educe] struct S;` => "you are using an incorrect format of
// the `educe` attribute, which should be reformatted as follows: #[educe(Trait1, Trait2, ..., TraitN)]"),
// a malformed `educe` attribute on a field / variant is refused.
//
// Observed: every `build_from_attributes` scanner only looks at `Meta::List` attributes
// (`if let Meta::List(list) = &attribute.meta { .. }` without an `else`), so these attributes are
// dropped without a diagnostic: an unknown trait, a trait that is not educed, a union-field `method`
// ... all slip through in this spelling.

#[test]
fn control_valid_input_is_accepted() {
    assert_accepted("#[derive(Educe)] #[educe(Debug)] struct S { #[educe(Debug(ignore))] a: u8, b: u8 }");
}

#[test]
fn control_the_same_spellings_are_refused_on_the_type() {
    assert_rejected("#[derive(Educe)] #[educe(Debug)] #[educe] struct S { a: u8 }");
    assert_rejected("#[derive(Educe)] #[educe(Debug)] #[educe = \"Clone\"] struct S { a: u8 }");
}

#[test]
fn control_the_list_spelling_is_refused_on_fields_and_variants() {
    assert_rejected("#[derive(Educe)] #[educe(Debug)] struct S { #[educe(NoSuchTrait)] a: u8 }");
    assert_rejected("#[derive(Educe)] #[educe(Debug)] struct S { #[educe(Clone(method(f)))] a: u8 }");
    assert_rejected("#[derive(Educe)] #[educe(Debug)] enum E { #[educe(Debug(bound = false))] A }");
}

#[test]
fn bare_educe_on_a_field_must_be_refused() {
    assert_rejected("#[derive(Educe)] #[educe(Debug)] struct S { a: u8, #[educe] b: u8 }");
}

#[test]
fn name_value_educe_naming_an_unknown_trait_on_a_field_must_be_refused() {
    assert_rejected("#[derive(Educe)] #[educe(Debug)] struct S(#[educe = \"NoSuchTrait\"] u8, u8);");
}

#[test]
fn name_value_educe_naming_a_trait_that_is_not_educed_must_be_refused() {
    assert_rejected(
        "#[derive(Educe)] #[educe(Debug)] enum E { A { #[educe = \"Clone(method(f))\"] a: u8 }, B }",
    );
}

#[test]
fn non_list_educe_on_a_variant_must_be_refused() {
    assert_rejected("#[derive(Educe)] #[educe(Debug)] enum E { A, #[educe] B }");
    assert_rejected("#[derive(Educe)] #[educe(Debug)] enum E { A, B, #[educe = \"Debug(bound = false)\"] C(u8) }");
}

#[test]
fn non_list_educe_on_a_union_field_must_be_refused() {
    assert_rejected("#[derive(Educe)] #[educe(Debug(unsafe))] union U { a: u8, #[educe = \"Debug(method(f))\"] b: u16 }");
}
// ---------------------------------------------------------------------------------------------
// helper: compile a snippet against the educe proc-macro that cargo built for this test run
// and report whether rustc accepted it. (The crate has no trybuild dev-dependency and the machine
// is offline, so the compile-fail check is done by calling `rustc` directly.)
// ---------------------------------------------------------------------------------------------
use std::{
    path::PathBuf,
    process::Command,
    sync::atomic::{AtomicUsize, Ordering},
};

static COUNTER: AtomicUsize = AtomicUsize::new(0);

/// The `libeduce-*.so` next to this test binary (`target/<profile>/deps`), newest one wins.
/// Can be overridden with the `EDUCE_SO` environment variable.
fn educe_dylib() -> PathBuf {
    if let Ok(p) = std::env::var("EDUCE_SO") {
        return PathBuf::from(p);
    }

    let exe = std::env::current_exe().unwrap();
    let deps = exe.parent().unwrap();

    let mut best: Option<(std::time::SystemTime, PathBuf)> = None;

    for entry in std::fs::read_dir(deps).unwrap() {
        let path = entry.unwrap().path();
        let name = path.file_name().unwrap().to_string_lossy().to_string();

        let is_lib = (name.starts_with("libeduce-") || name.starts_with("educe-"))
            && (name.ends_with(".so") || name.ends_with(".dylib") || name.ends_with(".dll"));

        if is_lib {
            let mtime = std::fs::metadata(&path).unwrap().modified().unwrap();

            if best.as_ref().map(|(t, _)| mtime > *t).unwrap_or(true) {
                best = Some((mtime, path));
            }
        }
    }

    best.expect("cannot find the educe proc-macro library next to the test binary").1
}

/// Returns `(accepted, stderr)`.
fn compile(snippet: &str) -> (bool, String) {
    let dir = PathBuf::from(env!("CARGO_TARGET_TMPDIR"));
    let n = COUNTER.fetch_add(1, Ordering::SeqCst);
    let work = dir.join(format!("found_demo_{}_{}", std::process::id(), n));
    std::fs::create_dir_all(&work).unwrap();
    let src = work.join("snippet.rs");

    std::fs::write(
        &src,
        format!("#![allow(dead_code, unused)]\nuse educe::Educe;\n{}\n", snippet),
    )
    .unwrap();

    let rustc = std::env::var("RUSTC").unwrap_or_else(|_| String::from("rustc"));

    let output = Command::new(rustc)
        .args(["--edition", "2021", "--crate-type", "lib", "--crate-name", "snippet"])
        .arg("--emit=metadata")
        .arg("--extern")
        .arg(format!("educe={}", educe_dylib().display()))
        .arg("--out-dir")
        .arg(&work)
        .arg(&src)
        .output()
        .expect("cannot run rustc");

    let _ = std::fs::remove_dir_all(&work);

    (output.status.success(), String::from_utf8_lossy(&output.stderr).to_string())
}

#[track_caller]
fn assert_accepted(snippet: &str) {
    let (accepted, stderr) = compile(snippet);

    assert!(accepted, "control snippet should compile but did not:\n{snippet}\n{stderr}");
}

#[track_caller]
fn assert_rejected(snippet: &str) {
    let (accepted, _) = compile(snippet);

    assert!(
        !accepted,
        "PROPERTY VIOLATED: the following derive request was accepted without any diagnostic, \
         but must be refused:\n{snippet}"
    );
}
