use educe::Educe;
#[derive(Educe)]
#[educe(Ord)]
pub struct S<T>(pub T);
