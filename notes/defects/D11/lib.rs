use educe::Educe;
fn m(x: &u8) -> u8 { *x }
#[derive(Educe)]
#[educe(Copy, Clone)]
pub enum E<T> { V(#[educe(Clone(method(m)))] u8, T) }
pub fn use_it(e: &E<u32>) -> E<u32> { *e }
